"""C15 — init_function presets.  Proof over regenerated call_funct/_update_dict_delta +
translator differential test + end-to-end oracle: real Python call binding through
call_funct versus the parameter-wise specification."""
import importlib
import json

import core
from core import Multi, Obj, pyval, show, show_outcome

PID = "C15"
GEN = ["InputCheck", "Backend"]
CONE = ["Base/Dec.v", "Base/PyLib.v", "Base/Tac.v", "Proofs/DictFacts.v", "Proofs/C15Proofs.v"]
IMPORTS = ["Base.Dec", "Base.PyLib", "Base.Show", "Gen.InputCheck", "Gen.Backend"]
NAMES = ["a", "b", "c", "d", "e"]
MISSING = "<missing>"


def gen_case(rng):
    n = rng.randint(0, 4)
    names = rng.sample(NAMES, n)
    ndef = rng.randint(0, n)
    defaults = {nm: 100 + i for i, nm in enumerate(names[n - ndef:])}
    npos = rng.choice([0, 0, 1, 1, 2, n, min(n + 1, 5), rng.randint(0, n + 1)])
    pos = [10 + i for i in range(npos)]
    pool = names + ["y", "z"]
    kw = {k: rng.choice([20 + i, 20 + i, None, 0, False, ""]) for i, k in enumerate(rng.sample(pool, rng.randint(0, min(3, len(pool)))))}
    mem = rng.choice([None, None] + [0] * 6)
    if mem == 0:
        mem = {k: rng.choice([30 + i, 30 + i, 30 + i, None]) for i, k in enumerate(rng.sample(pool + ["q"], rng.randint(0, min(5, len(pool) + 1))))}
    tup = rng.choice([True, False])
    return dict(names=names, defaults=defaults, pos=pos, kw=kw, mem=mem, tuple=tup)


def make_fn(names, defaults):
    params = ", ".join(("%s=%d" % (nm, defaults[nm])) if nm in defaults else nm for nm in names)
    ns = {}
    # the body has local variables spelled like keys a preset dictionary may hold (q, y, z): undeclared keys must be ignored
    exec("def fn(%s):\n    out__ = dict(locals())\n    q = y = z = None\n    return out__\n" % params, ns)
    return ns["fn"]


def spec_binding(c):
    """the property, parameter by parameter: positional, else caller keyword, else preset,
    else default, else TypeError; unknown caller keywords / duplicates are TypeErrors"""
    names, pos, kw, mem = c["names"], c["pos"], c["kw"], c["mem"] or {}
    if len(pos) > len(names):
        return "Err TypeError"
    for k in kw:
        if k not in names or names.index(k) < len(pos):
            return "Err TypeError"
    out = {}
    for i, nm in enumerate(names):
        if i < len(pos):
            out[nm] = pos[i]
        elif nm in kw:
            out[nm] = kw[nm]
        elif nm in mem:
            out[nm] = mem[nm]
        elif nm in c["defaults"]:
            out[nm] = c["defaults"][nm]
        else:
            return "Err TypeError"
    return "Ok " + show(out)


def build_cases(res):
    rng = res.rng
    be = importlib.import_module("executorlib.standalone.interactive.backend")
    n = 600 if res.tier == "quick" else 6000
    cases = []
    for _ in range(n):
        c = gen_case(rng)
        fn = make_fn(c["names"], c["defaults"])
        args = tuple(c["pos"]) if c["tuple"] else list(c["pos"])

        def rec(f, *a, **k):
            return Multi(Obj("fn", 0), (tuple(a) if c["tuple"] else list(a)), dict(k))

        mem_before = json.dumps(c["mem"])
        py = show_outcome(lambda: be.call_funct({"fn": fn, "args": args, "kwargs": dict(c["kw"])}, funct=rec,
                                                memory=c["mem"]))
        coq = "show_res3 (call_funct %s %s VNone %s)" % (
            pyval(list(c["names"])), pyval({"fn": Obj("fn", 0), "args": args, "kwargs": dict(c["kw"])}), pyval(c["mem"]))
        # end to end through Python's own binding
        mem2 = None if c["mem"] is None else dict(c["mem"])
        real = show_outcome(lambda: be.call_funct({"fn": fn, "args": args, "kwargs": dict(c["kw"])}, funct=None, memory=mem2))
        verdict = None
        exp = spec_binding(c)
        if real != exp:
            verdict = "binding through call_funct gives %s, the property requires %s" % (real, exp)
        elif mem2 != c["mem"] or json.dumps(c["mem"]) != mem_before:
            verdict = "the preset dictionary was modified by the call"
        cases.append(("call_funct", c, coq, py, verdict))
        # _update_dict_delta directly (translator test)
        di = {k: i for i, k in enumerate(rng.sample(NAMES, rng.randint(0, 4)))}
        do = {k: i for i, k in enumerate(rng.sample(NAMES, rng.randint(0, 3)))}
        kp = rng.sample(NAMES, rng.randint(0, 5))
        py = show_outcome(lambda: be._update_dict_delta(dict_input=di, dict_output=do, keys_possible_lst=kp))
        cases.append(("_update_dict_delta", dict(dict_input=di, dict_output=do, keys=kp),
                      "show_res (_update_dict_delta %s %s %s)" % (pyval(di), pyval(do), pyval(kp)), py, None))
    ic = importlib.import_module("executorlib.standalone.inputcheck")
    for ba in (True, False):
        for f in (None, Obj("fn", 1)):
            py = show_outcome(lambda: ic.check_init_function(block_allocation=ba, init_function=f))
            verdict = None
            if not ba and f is not None and not py.startswith("Err"):
                verdict = "init_function accepted without block allocation"
            cases.append(("check_init_function", dict(block_allocation=ba, init_function=f is not None),
                          "show_res (check_init_function %s %s)" % (pyval(ba), pyval(f)), py, verdict))
    return cases


def run(res):
    core.standard_run(res, PID, CONE, GEN, IMPORTS, build_cases,
                      rule=("seeded signatures (0-4 positional-or-keyword parameters, any suffix with defaults), positional/"
                            "keyword splits incl. too many / unknown / duplicate bindings, preset dictionaries overlapping "
                            "partially, fully or not at all; each case (a) runs real call_funct with a recorder and the "
                            "regenerated Gallina call_funct and compares, (b) runs real call_funct through Python's own "
                            "binding and compares with the parameter-wise specification; distinct = distinct inputs whose "
                            "outcome is not an exception"),
                      assumptions=["Python's binding of positional-or-keyword parameters (exercised for real in the oracle, "
                                   "not modelled in Coq)", "translator + PyLib (differentially tested)",
                                   "inspect.getfullargspec(fn).args = declared parameter names (plain functions)"])


def replay(path):
    r = json.load(open(path))["replay"]
    print(json.dumps(r, indent=1)[:3000])
    if r.get("kind") != "oracle" or r["case"]["function"] != "call_funct":
        return 0
    be = importlib.import_module("executorlib.standalone.interactive.backend")
    c = r["case"]["input"]
    fn = make_fn(c["names"], c["defaults"])
    args = tuple(c["pos"]) if c["tuple"] else list(c["pos"])
    real = show_outcome(lambda: be.call_funct({"fn": fn, "args": args, "kwargs": dict(c["kw"])}, funct=None, memory=c["mem"]))
    print("real:", real, "\nspec:", spec_binding(c))
    return 0 if real == spec_binding(c) else 1
