"""C13 — see props/cachefile.py (operation-list tie, oracles) and DESIGN.md section 5."""
import cachefile

CONE = ["Model/CacheFs.v", "Model/FileFlow.v", "Proofs/CacheProofs.v", "Model/Exec.v", "Model/StepExec.v", "Model/FileExec.v", "Model/FileSpec.v", "Proofs/FileSafe.v", "Proofs/Refute.v"]


def run(res):
    cachefile.cache_check(res, "C13", CONE)


def replay(path):
    return cachefile.replay_case(path)
