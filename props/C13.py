"""C13 — see props/cachefile.py (operation-list tie, oracles) and DESIGN.md section 5."""
import cachefile

CONE = ["Model/CacheFs.v", "Model/FileFlow.v", "Proofs/CacheProofs.v", "Model/Exec.v", "Model/StepExec.v", "Model/FileExec.v", "Model/FileSpec.v", "Proofs/FileSafe.v", "Model/FileLiveSpec.v", "Proofs/FileLive.v", "Model/FileMeasureSpec.v", "Proofs/FileMeasure.v", "Proofs/Refute.v"]


def progress_on_traces(res, hits):
    """the statement proved in Proofs/FileLive.v (Model/FileLiveSpec.v: rest_ok) evaluated along kill-free single-session runs
    of the real file executor: at every state where all started processes have exited and the loop is between two
    iterations, every registered future is done or has a complete result file, and no taken call is lost"""
    import core
    import lockstep
    rng = res.rng
    n = 40 if res.tier == "quick" else 400
    cases = []
    while len(cases) < n:
        c = lockstep.gen_fexec_case(rng)
        if any(x.get("same_as") for x in c["calls"]) or not c["calls"]:
            continue
        if any(o[0] == "cancel" or (o[0] == "shutdown" and o[2]) for o in c["ops"]):
            continue
        c["schedule"] = lockstep.gen_schedule(rng, 3000)
        c["step_limit"] = 3000
        cases.append(c)
    results = lockstep.run_cases(cases)
    exprs, keep = [], []
    for c, r in zip(cases, results):
        if r["verdict"] not in ("done", "deadlock", "quiescent"):
            continue
        deps = ["[%s]" % "; ".join(str(d) for d in x.get("deps", [])) for x in c["calls"]]
        canon = [str(i + 1) for i in range(len(c["calls"]))]
        picks = [lockstep.tid_coq_f(t[1]) for t in r["trace"]]
        exprs.append("(flive_case [%s] [%s] %d [%s] [%s])%%nat" % ("; ".join(deps), "; ".join(canon), len(c["calls"]),
                     "; ".join(lockstep.op_coq(o) for o in c["ops"]), "; ".join(picks)))
        keep.append(c)
    outs = core.eval_strings(["Base.Dec", "Model.Exec", "Model.FileExec", "Model.FileLiveShow"], exprs, "C13_flive", shard=100)
    res.cov["progress_statement_traces"] = len(outs)
    res.cov["progress_statement_rest_states"] = sum(int(o.split()[1]) for o in outs if o.startswith("ok "))
    res.cov["progress_statement_skipped"] = sum(1 for o in outs if o == "skip")
    bad = [(c, o) for c, o in zip(keep, outs) if not (o.startswith("ok ") or o == "skip")]
    if bad:
        c, o = bad[0]
        return [{"why": "a kill-free run of the real file executor reaches a rest state that violates the progress statement "
                        "(Model/FileLiveSpec.v rest_ok; A = a registered future neither done nor with a complete result file, "
                        "B = a taken call neither done nor registered): %s" % o,
                 "case": {k: v for k, v in c.items() if k != "schedule"}, "schedule": c["schedule"][:400]}]
    return []


def run(res):
    cachefile.cache_check(res, "C13", CONE, extra=progress_on_traces)


def replay(path):
    return cachefile.replay_case(path)
