"""Shared by C08 C09 C13 C14: the cache-directory protocol.  (1) the writers' operation lists of
Model/CacheFs.v against the persistence points observed when the real code runs under the
simulator; (2) oracles over file-mode and interactive-cache programs with generated schedules,
crash points (a process killed between two persistence operations) and sequences of sessions
sharing one directory."""
import json
import os
import re

import core
import lockstep

IMPORTS = ["Model.CacheFs"]
SUF = {".h5in": "h5in", ".h5ready": "h5ready", ".h5out": "h5out"}


def persist_ops(trace, entity, key=None):
    """persistence operations of one entity as strings in the alphabet of CacheFs.show_op"""
    out = []
    for en, pick, lab in trace:
        if pick != entity:
            continue
        if lab[0] == "h5" and lab[1] in ("open-a", "ds", "close"):
            tag = lab[2]
            m = re.match(r"k(\d+)(\.\w+)$", tag)
            if not m or (key is not None and m.group(1) != str(key)):
                continue
            suf = SUF.get(m.group(2), m.group(2))
            if lab[1] == "ds":
                out.append("ds %s %s" % (suf, lab[3]))
            else:
                out.append("%s %s" % (lab[1], suf))
        elif lab[0] in ("rename", "remove"):
            m = re.match(r"k(\d+)(\.\w+)$", lab[1])
            if not m or (key is not None and m.group(1) != str(key)):
                continue
            if lab[0] == "rename":
                m2 = re.match(r"k(\d+)(\.\w+)$", lab[2])
                out.append("rename %s %s" % (SUF[m.group(2)], SUF[m2.group(2)]))
            else:
                out.append("remove %s" % SUF[m.group(2)])
    return out


def writers_only(ops):
    """drop the read-side operations (open-r/read/close after open-r) - the model lists writers"""
    return ops


def oplist_tie(res):
    """returns list of mismatches between observed operation sequences and the model's lists"""
    cases = [
        {"mode": "file", "calls": [{"args": [5]}], "ops": [["submit", 1], ["result", 1], ["shutdown", True, False]], "schedule": [], "step_limit": 1500},
        {"mode": "block", "workers": 1, "cache": True, "calls": [{"args": [5]}], "ops": [["submit", 1], ["result", 1], ["shutdown", True, False]], "schedule": [], "step_limit": 1500},
        {"mode": "file", "calls": [{"args": [5]}, {"same_as": 1, "args": [5]}],
         "sessions": [{"ops": [["submit", 1], ["result", 1]], "crash": {"entity": "P1", "after": 1}},
                      {"ops": [["submit", 2], ["result", 2], ["shutdown", True, False]]}], "schedule": [], "step_limit": 1500},
    ]
    rs = lockstep.run_cases(cases)
    want = core.eval_strings(IMPORTS, ["show_ops worker_ops", "show_ops (submit_ops false)", "show_ops (submit_ops true)",
                                       "show_ops interactive_ops"], "oplists")
    want = [w.split(",") for w in want]
    bad = []
    tr = rs[0].get("trace", [])

    def writes(entity, trace):
        ops, writing = [], False
        for o in persist_ops(trace, entity):
            if o.startswith("open-a") or o.startswith("rename") or o.startswith("remove") or o.startswith("ds "):
                writing = o.startswith("open-a") or writing
                ops.append(o)
            elif o.startswith("close") and writing:
                ops.append(o)
                writing = False
        return ops
    got_worker = writes("P1", tr)
    got_submit = writes("F", tr)
    if got_worker != want[0]:
        bad.append({"writer": "backend_write_file (file-mode worker)", "observed": got_worker, "model": want[0]})
    if got_submit != want[1]:
        bad.append({"writer": "execute_tasks_h5 (submit side)", "observed": got_submit, "model": want[1]})
    got_inter = writes("W1", rs[1].get("trace", []))
    if got_inter != want[3]:
        bad.append({"writer": "_execute_task_with_cache (interactive writer)", "observed": got_inter, "model": want[3]})
    # stale input file: second session of case 3 (everything after the crash marker)
    tr3 = rs[2].get("trace", [])
    cut = next((k for k, (en, pick, lab) in enumerate(tr3) if lab[0] == "crash"), None)
    if cut is None:
        bad.append({"writer": "stale-session harness", "observed": rs[2].get("verdict"), "model": "crash marker"})
    else:
        got_stale = writes("F", tr3[cut:])
        if got_stale != want[2]:
            bad.append({"writer": "execute_tasks_h5 (submit side, stale .h5in)", "observed": got_stale, "model": want[2]})
    return bad, [r.get("verdict") for r in rs]


# ------------------------------------------------------------------ program generation
def gen_file_case(rng):
    """logical DAG + sessions; every session uses fresh call ids, dependencies stay inside a
    session (a new process cannot hold futures of a dead one); a logical call submitted again is
    the same call (same_as), within a session (duplicate in flight) or across sessions"""
    n = rng.randint(1, 4)
    logical = []
    for l in range(n):
        d = {"args": [rng.randint(0, 2)], "deps": []}
        if l > 0 and rng.random() < 0.5:
            d["deps"] = [rng.randrange(0, l)]
        logical.append(d)
    calls, first, sessions = [], {}, []
    nsess = rng.choice([1, 1, 2, 2, 3])
    for s in range(nsess):
        chosen = sorted(set(rng.sample(range(n), rng.randint(1, n))))
        closed = []
        for l in chosen:
            stack = [l]
            while stack:
                x = stack.pop()
                if x not in closed:
                    closed.append(x)
                    stack += logical[x]["deps"]
        closed.sort()
        if rng.random() < 0.2 and closed:
            closed.append(rng.choice([x for x in closed]))      # duplicate in the same session
        ids = {}
        ops = []
        for l in closed:
            cid = len(calls) + 1
            c = {"args": list(logical[l]["args"]), "deps": [ids[p] for p in logical[l]["deps"]], "logical": l}
            if l in first:
                c["same_as"] = first[l]
            else:
                first[l] = cid
            calls.append(c)
            if l not in ids:
                ids[l] = cid
            ops.append(["submit", cid])
        mine = [o[1] for o in ops]
        for i in mine:
            if rng.random() < 0.7:
                ops.append(["result", i])
        ops.append(["shutdown", True, False] if rng.random() < 0.7 else ["shutdown", False, False])
        sess = {"ops": ops}
        if s < nsess - 1 and rng.random() < 0.6:
            sess["crash"] = rng.choice([{"entity": "P%d" % rng.randint(1, 2), "after": rng.randint(0, 6)},
                                        {"entity": "F", "after": rng.randint(0, 4)},
                                        {"entity": "ALL", "at_step": rng.randint(5, 120)}])
        sessions.append(sess)
    return {"mode": "file", "calls": calls, "sessions": sessions, "step_limit": 2500}


def gen_cache_case(rng):
    n = rng.randint(1, 3)
    logical = [{"args": [rng.randint(0, 1)]} for _ in range(n)]
    calls, first, sessions = [], {}, []
    nsess = rng.choice([1, 2, 2, 3])
    for s in range(nsess):
        chosen = [rng.randrange(n) for _ in range(rng.randint(1, 3))]
        ops = []
        for l in chosen:
            cid = len(calls) + 1
            c = {"args": list(logical[l]["args"]), "logical": l}
            if l in first:
                c["same_as"] = first[l]
            else:
                first[l] = cid
            calls.append(c)
            ops.append(["submit", cid])
        mine = [o[1] for o in ops]
        ops += [["result", i] for i in mine if rng.random() < 0.6]
        ops.append(["shutdown", True, False])
        sess = {"ops": ops}
        if s < nsess - 1 and rng.random() < 0.5:
            sess["crash"] = rng.choice([{"entity": "W%d" % rng.randint(1, 2), "after": rng.randint(0, 5)},
                                        {"entity": "ALL", "at_step": rng.randint(10, 100)}])
        sessions.append(sess)
    return {"mode": "block", "workers": rng.choice([1, 2, 2]), "cache": True, "calls": calls, "sessions": sessions,
            "step_limit": 2000}


def canon(case, i):
    return case["calls"][i - 1].get("same_as", i)


def expected_value(case, i, memo=None):
    c = case["calls"][canon(case, i) - 1]
    j = canon(case, i)
    args = [expected_value(case, d) for d in c.get("deps", [])] + list(c.get("args", []))
    return ["v", j] + args


def body_counts(r):
    cnt = {}
    for en, pick, lab in r.get("trace", []):
        if lab[0] == "body":
            cnt[lab[1]] = cnt.get(lab[1], 0) + 1
    return cnt


def complete_entry(ds):
    names = [d for d in ds if not d.startswith("#")]
    return all(x in names for x in ("function", "input_args", "input_kwargs", "output"))


def directed_file_cases():
    """an interrupted first session at every persistence point of the submitting loop (writing the
    input file) and of the worker (reading, staging, publishing), followed by a session that submits
    the same call again and waits for it; plus the same with a dependent call"""
    out = []
    for ent, ks in (("F", range(0, 5)), ("P1", range(0, 11))):
        for k in ks:
            out.append({"mode": "file", "step_limit": 2500,
                        "calls": [{"args": [1], "deps": [], "logical": 0}, {"args": [1], "deps": [], "logical": 0, "same_as": 1}],
                        "sessions": [{"ops": [["submit", 1], ["result", 1], ["shutdown", True, False]], "crash": {"entity": ent, "after": k}},
                                     {"ops": [["submit", 2], ["result", 2], ["shutdown", True, False]]}]})
    for k in range(0, 14):
        out.append({"mode": "file", "step_limit": 2500,
                    "calls": [{"args": [1], "deps": [], "logical": 0}, {"args": [2], "deps": [1], "logical": 1},
                              {"args": [1], "deps": [], "logical": 0, "same_as": 1}, {"args": [2], "deps": [3], "logical": 1, "same_as": 2}],
                    "sessions": [{"ops": [["submit", 1], ["submit", 2], ["result", 2], ["shutdown", True, False]], "crash": {"entity": "P2", "after": k}},
                                 {"ops": [["submit", 3], ["submit", 4], ["result", 4], ["shutdown", True, False]]}]})
    return out


def explore(res, n_file, n_cache):
    rng = res.rng
    cases = []
    if n_file:
        for c in directed_file_cases():
            c["schedule"] = lockstep.gen_schedule(rng, 2500)
            cases.append(("file", c))
    for _ in range(n_file):
        c = gen_file_case(rng)
        c["schedule"] = lockstep.gen_schedule(rng, 2500)
        cases.append(("file", c))
    for _ in range(n_cache):
        c = gen_cache_case(rng)
        c["schedule"] = lockstep.gen_schedule(rng, 2000)
        cases.append(("cache", c))
    rs = lockstep.run_cases([c for _, c in cases])
    return [(k, c, r) for (k, c), r in zip(cases, rs)]


def crashed(case):
    return any(s.get("crash") for s in case.get("sessions", []))


def dup_in_flight(case):
    """some session submits two calls with the same key"""
    for s in case.get("sessions", []):
        keys = [canon(case, o[1]) for o in s["ops"] if o[0] == "submit"]
        if len(keys) != len(set(keys)):
            return True
    return False


def session_of(case, i):
    for k, s in enumerate(case.get("sessions", [])):
        if any(o[0] == "submit" and o[1] == i for o in s["ops"]):
            return k
    return None


# ------------------------------------------------------------------ oracles
def seg_bodies(r, k):
    """function bodies executed during session k: {canonical call id: count}"""
    ends = [s["steps"] for s in r["sessions"]]
    lo = 0 if k == 0 else ends[k - 1]
    hi = ends[k]
    cnt = {}
    for en, pick, lab in r["trace"][lo:hi]:
        if lab[0] == "body":
            cnt[lab[1]] = cnt.get(lab[1], 0) + 1
    return cnt


def last_session_ids(case):
    return [o[1] for o in case["sessions"][-1]["ops"] if o[0] == "submit"]


def o_c13(kind, case, r):
    if kind != "file":
        return None
    last = r["sessions"][-1]
    ends = [x["steps"] for x in r["sessions"]]
    lo = ends[-2] if len(ends) > 1 else 0
    mine = {pick for en, pick, lab in r["trace"][lo:]} | {lab[1] for en, pick, lab in r["trace"][lo:] if lab[0] == "spawn"}
    dead = {n: e[1] for n, e in r["ents"].items() if e[1] and n[0] in "FP" and n in mine}
    if dead:
        return "file-mode thread/process died: %r" % (dead,)
    blocked = last["verdict"] == "quiescent" and "M" in r.get("parked", {})    # only the polling loop still runs; the client waits forever
    if last["verdict"] not in ("done", "quiescent") or blocked:
        why = "file-mode session ends with %s: parked %r" % ("the client blocked forever" if blocked else last["verdict"], r.get("parked"))
        parked = r.get("parked", {}).get("M")
        if parked and parked[0] == "result":
            # the client waits for a future that never resolves: the duplicate-in-flight defect?
            fid = parked[1]
            ids = last_session_ids(case)
            cid = next((i for i in ids if r["futures"].get(str(fid)) is not None and
                        str(i) in r["call_futures"] and r["call_futures"][str(i)] in ("pending", "running")), None)
            seen, dups = set(), set()
            for i in ids:
                if canon(case, i) in seen:
                    dups.add(i)
                seen.add(canon(case, i))
            if any(r["call_futures"].get(str(i)) in ("pending", "running") for i in dups):
                return why + " #D11"
        return why
    for i in last_session_ids(case):
        st = r["call_futures"].get(str(i), "pending")
        if st.startswith("res:"):
            if r["call_values"].get(str(i)) != expected_value(case, i):
                return "call %d yields %r, sequential evaluation gives %r" % (i, r["call_values"].get(str(i)), expected_value(case, i))
        elif st.startswith("exc:"):
            return "call %d of a succeeding program reports %s" % (i, st)
    return None


def early_entry(r):
    """interactive cache: a worker thread creates the entry under its final name and only afterwards
    lets its own process execute the function (the entry is then visible, without output, for the
    whole duration of the call)"""
    owner = {lab[1]: pick for en, pick, lab in r["trace"] if lab[0] == "spawn"}     # process -> worker thread
    opened = {}      # worker thread -> (file, step) of an entry it has opened for writing and not yet given an output
    for step, (en, pick, lab) in enumerate(r["trace"]):
        if lab[0] == "h5" and str(lab[2]).endswith(".h5out"):
            if lab[1] == "open-a":
                opened[pick] = (lab[2], step)
            elif (lab[1] == "ds" and lab[3] == "output") or lab[1] == "close":
                if lab[1] == "ds":
                    opened.pop(pick, None)
        elif lab[0] == "body" and owner.get(pick) in opened:
            fn, st = opened[owner[pick]]
            if fn == "k%s.h5out" % lab[1]:
                return ("%s was created under its final name at step %d, before the function of that call was executed "
                        "(step %d): every identical call looked up meanwhile is served an entry without output" % (fn, st, step))
    return None


def o_c14(kind, case, r):
    if kind != "file":
        w = early_entry(r)
        if w:
            return w
    for k, s in enumerate(r["sessions"]):
        for fn, ds in s["dir"].items():
            if not fn.endswith(".h5out"):
                continue
            names = [d for d in ds if not d.startswith("#")]
            if kind == "file":
                if "output" in names and not complete_entry(ds):
                    return "after session %d: %s is accepted (has output) but incomplete: %r" % (k + 1, fn, names)
            else:
                if not complete_entry(ds):
                    # D10 is about a writer that was cut short (or overtaken while still writing); an entry
                    # whose writer ran to its close() and which still lacks a dataset is something else
                    hi = s["steps"]
                    state, cur = None, {}
                    for en, pick, lab in r["trace"][:hi]:
                        if lab[0] == "h5" and lab[2] == fn:
                            if lab[1] == "open-a":
                                cur[pick] = False
                            elif lab[1] == "ds" and lab[3] == "output" and pick in cur:
                                cur[pick] = True
                            elif lab[1] == "close" and cur.pop(pick, False):
                                state = "finished"        # this writer wrote the output itself and closed the file
                    if state == "finished":
                        return "after session %d: the writer of %s finished, yet the entry is incomplete: %r" % (k + 1, fn, names)
                    return "after session %d: %s is accepted by the interactive hit path but incomplete: %r #D10" % (k + 1, fn, names)
    if not crashed(case):
        return None
    last = r["sessions"][-1]
    if kind == "file":
        w = o_c13(kind, case, r)
        return None if (w and w.endswith("#D11")) else w
    if last["verdict"] not in ("done", "quiescent") and not dup_in_flight(case):
        return "after an interrupted run the resubmitted session ends with %s #D10" % last["verdict"]
    for i in last_session_ids(case):
        st = r["call_futures"].get(str(i), "pending")
        if st.startswith("res:") and r["call_values"].get(str(i)) != expected_value(case, i):
            return "after an interrupted run call %d yields %r instead of %r #D10" % (i, r["call_values"].get(str(i)), expected_value(case, i))
    return None


def c09_trace(case, r):
    """within a session: a completed entry is never removed or replaced, and no call submitted after
    its entry was completed executes the function (calls submitted before may still be running)"""
    nodeps = not any(c.get("deps") for c in case["calls"])        # with Future arguments one call may have two keys under one tag
    ends = [s["steps"] for s in r["sessions"]]
    done_at = {}           # tag -> step at which the entry became complete
    writing = set()
    for step, (en, pick, lab) in enumerate(r["trace"]):
        if lab[0] == "rename" and str(lab[2]).endswith(".h5out"):
            if lab[2] in done_at and nodeps:
                return "completed cache entry %s was replaced at step %d (a second result file renamed onto it)" % (lab[2], step)
            done_at.setdefault(lab[2], step)
        elif lab[0] == "h5" and lab[1] == "ds" and str(lab[2]).endswith(".h5out") and lab[3] == "output":
            writing.add(lab[2])
        elif lab[0] == "h5" and lab[1] == "close" and lab[2] in writing:
            writing.discard(lab[2])
            done_at.setdefault(lab[2], step)
        elif lab[0] == "remove" and lab[1] in done_at:
            return "completed cache entry %s was deleted at step %d" % (lab[1], step)
    if not nodeps:
        return None
    for tag, t0 in done_at.items():
        m = re.match(r"k(\d+)\.h5out$", tag)
        if not m:
            continue
        key = int(m.group(1))
        sess = next((k for k, e in enumerate(ends) if t0 < e), len(ends) - 1)
        lo = 0 if sess == 0 else ends[sess - 1]
        hi = ends[sess]
        sub_before = bodies_before = bodies_after = 0
        for step in range(lo, hi):
            en, pick, lab = r["trace"][step]
            if lab[0] == "put" and str(lab[2]).startswith("T") and canon(case, int(str(lab[2])[1:])) == key and step < t0:
                sub_before += 1
            if lab[0] == "body" and lab[1] == key:
                if step < t0:
                    bodies_before += 1
                else:
                    bodies_after += 1
        if bodies_after > max(0, sub_before - bodies_before):
            return ("the entry of call %d was complete at step %d, yet its function was executed again afterwards for a call "
                    "submitted later in the same executor" % (key, t0))
    return None


def o_c09(kind, case, r):
    w = c09_trace(case, r)
    if w:
        return w
    completed = {}     # canonical id -> content hash of its published entry
    for k, s in enumerate(r["sessions"]):
        bodies = seg_bodies(r, k)
        for cid, cnt in bodies.items():
            if cid in completed:
                why = "call %d was already complete in the cache directory but its function ran again in session %d" % (cid, k + 1)
                # D27 (file mode): the key of a call with a Future argument depends on whether the producer is still
                # registered when the call is converted (FutureItem naming the producer's file) or already finished and
                # dropped (its value): the same call then has two keys
                if kind == "file" and case["calls"][cid - 1].get("deps"):
                    return why + " #D27"
                return why
        for fn, ds in s["dir"].items():
            m = re.match(r"k(\d+)\.h5out$", fn)
            if m and complete_entry(ds):
                cid = int(m.group(1))
                h = [d for d in ds if d.startswith("#")]
                if cid in completed and completed[cid] != h:
                    return "completed cache entry of call %d was altered in session %d" % (cid, k + 1)
                completed[cid] = h
        for cid in list(completed):
            if "k%d.h5out" % cid not in s["dir"]:
                return "completed cache entry of call %d was deleted in session %d" % (cid, k + 1)
    return None


def o_c08(kind, case, r):
    if kind != "file":
        w = early_entry(r)
        if w:
            return w
    if kind != "cache":
        return None
    for i_s, st in r["call_futures"].items():
        i = int(i_s)
        if st.startswith("res:"):
            v = r["call_values"].get(i_s)
            if v != expected_value(case, i):
                why = "call %d is served %r, its own value is %r" % (i, v, expected_value(case, i))
                return why + " #D10" if v is None else why
        elif st.startswith("exc:"):
            return "call %d fails with %s although its function succeeds #D17" % (i, st)
    return None


ORACLES = {"C08": o_c08, "C09": o_c09, "C13": o_c13, "C14": o_c14}
RULE = ("seeded programs over a logical DAG of calls, run as 1-3 sessions sharing one cache directory (file-mode executor with the "
        "subprocess back end, and block-allocation executor with cache_directory), duplicates within and across sessions, a crash in "
        "non-final sessions (a worker, the executor loop or the whole submitting process killed after its k-th persistence "
        "operation), seeded schedules; the real code runs under the deterministic simulator on the h5py stand-in; distinct = distinct "
        "traces")
ASSUME = ["h5py stand-in: a file is an append-only sequence of datasets; create-only datasets; every completed operation durable; "
          "real HDF5 locking / truncation behaviour is not represented",
          "simulator (file-mode workers run backend_execute_task_in_file as simulated processes)",
          "cloudpickle determinism within and across sessions of one interpreter",
          "md5 collision-freeness for the calls considered"]


FILE_LOCKSTEP = ("C13", "C14", "C09")
CACHE_LOCKSTEP = ("C08", "C09", "C14")
CX_IMPORTS = ["Base.Dec", "Model.Exec", "Model.ExecShow", "Model.StepExec", "Model.FileExec", "Model.FileShow", "Model.CacheExec", "Model.CacheShow"]
FX_IMPORTS = ["Base.Dec", "Model.Exec", "Model.ExecShow", "Model.StepExec", "Model.FileExec", "Model.FileShow"]


def cache_check(res, pid, cone, extra=None, n_file=(40, 400), n_cache=(30, 300), gen=()):
    nf, nc = (n_file[0], n_cache[0]) if res.tier == "quick" else (n_file[1], n_cache[1])
    with core.Lock():
        gate = core.grep_gate()
        status = core.regen()
        pr = core.proof_stage(res, pid, cone, list(gen), status)
        if gate:
            pr["ok"] = False
            pr["broken"].append({"kind": "gate", "error": gate})
        ok, log = core.make(["theories/Model/CacheFs.vo"])
        tie_bad, tie_verdicts = ([], [])
        if ok:
            try:
                tie_bad, tie_verdicts = oplist_tie(res)
            except core.CaseEvalError as ex:
                pr["ok"] = False
                pr["broken"].append({"kind": "case-eval", "error": str(ex)[-1000:]})
        else:
            pr["ok"] = False
            pr["broken"].append({"kind": "model-compile", "error": core.first_error(log)})
    corpus = []
    cdir = os.path.join(core.ROOT, "corpus")
    for fn in sorted(os.listdir(cdir)):
        if fn.startswith(pid + "_") and fn.endswith(".json"):
            w = json.load(open(os.path.join(cdir, fn)))
            corpus.append((w["kind"], w["case"]))
    runs = explore(res, nf, nc)
    if corpus:
        rs = lockstep.run_cases([c for _, c in corpus])
        runs = [(k, c, r) for (k, c), r in zip(corpus, rs)] + runs
    # lockstep: the file-mode runs (and extra programs over the whole client alphabet) replayed on Model/FileExec.v
    fx_div, fx_n = [], 0
    if pid in FILE_LOCKSTEP:
        fx_cases = []
        for _ in range(nf):
            c = lockstep.gen_fexec_case(res.rng)
            c["schedule"] = lockstep.gen_schedule(res.rng, 3000)
            c["step_limit"] = 3000
            fx_cases.append(c)
        fx_rs = lockstep.run_cases(fx_cases)
        fx_runs = [(c, r) for c, r in zip(fx_cases, fx_rs)] + [(c, r) for k, c, r in runs if k == "file" and lockstep.fexec_lockstep_ok(c)]
        fx_ok = [(c, r) for c, r in fx_runs if r.get("verdict") in ("done", "deadlock", "quiescent") and "sessions" in r]
        fx_harness = [r for c, r in fx_runs if r.get("verdict") in ("harness-error", "harness-timeout", "harness-stall")]
        with core.Lock():
            try:
                outs = core.eval_strings(FX_IMPORTS, [lockstep.coq_expr_fs(c, r) for c, r in fx_ok], "fexec", shard=80)
                for (c, r), o in zip(fx_ok, outs):
                    d = lockstep.compare_lines(lockstep.impl_lines_fs(c, r), o, None)
                    if d:
                        fx_div.append({"case": {a: b for a, b in c.items() if a != "schedule"},
                                       "schedule": c.get("schedule", [])[:len(r["trace"])], "divergence": d})
                fx_n = len(fx_ok)
            except core.CaseEvalError as ex:
                pr["ok"] = False
                pr["broken"].append({"kind": "case-eval", "error": str(ex)[-1000:]})
        res.cov["file_lockstep"] = {"traces_compared": fx_n, "divergences": len(fx_div),
                                    "multi_session": sum(1 for c, r in fx_ok if len(c.get("sessions", [])) > 1),
                                    "with_crash": sum(1 for c, r in fx_ok if crashed(c)),
                                    "steps": sum(len(r["trace"]) for c, r in fx_ok)}
        if fx_div:
            pr["ok"] = False
            pr["broken"].append({"kind": "file-lockstep", "error": fx_div[:2]})
        # programs without cancellation are also judged by the property's oracle
        def waits_after_shutdown(ops):
            # file-mode shutdown terminates the tasks still running; a result() after it waits for a
            # future nobody will complete — outside what these properties state
            seen = False
            for o in ops:
                if o[0] in ("shutdown", "exit"):
                    seen = True
                elif o[0] == "result" and seen:
                    return True
            return False

        for c, r in zip(fx_cases, fx_rs):
            if c.get("nocancel") and "sessions" in r and not waits_after_shutdown(c["ops"]):
                c2 = dict(c)
                c2["sessions"] = [{"ops": c["ops"]}]
                runs.append(("file", c2, r))
        if fx_harness:
            pr["ok"] = False
            pr["broken"].append({"kind": "harness", "error": [(r.get("error") or "")[-300:] for r in fx_harness[:2]]})
    # lockstep: the interactive-cache runs replayed on Model/CacheExec.v (every point, hits, collisions, killed workers)
    if pid in CACHE_LOCKSTEP:
        cx_cases = []
        for _ in range(nc):
            c = lockstep.gen_cblock_case(res.rng, dups=True)
            c.pop("iofault", None)
            c["schedule"] = lockstep.gen_schedule(res.rng, 2500)
            c["step_limit"] = 2500
            cx_cases.append(c)
        cx_rs = lockstep.run_cases(cx_cases)
        cx_runs = list(zip(cx_cases, cx_rs)) + [(c, r) for k, c, r in runs if k == "cache" and lockstep.cexec_lockstep_ok(c)]
        cx_ok = [(c, r) for c, r in cx_runs if r.get("verdict") in ("done", "deadlock", "quiescent") and "sessions" in r]
        cx_harness = [r for c, r in cx_runs if r.get("verdict") in ("harness-error", "harness-timeout", "harness-stall")]
        cx_div = []
        with core.Lock():
            try:
                outs = core.eval_strings(CX_IMPORTS, [lockstep.coq_expr_cc(c, r) for c, r in cx_ok], "cexec", shard=80)
                for (c, r), o in zip(cx_ok, outs):
                    d = lockstep.compare_lines(lockstep.impl_lines_cc(c, r), o, None)
                    if d:
                        cx_div.append({"case": {a: b for a, b in c.items() if a != "schedule"},
                                       "schedule": c.get("schedule", [])[:len(r["trace"])], "divergence": d})
            except core.CaseEvalError as ex:
                pr["ok"] = False
                pr["broken"].append({"kind": "case-eval", "error": str(ex)[-1000:]})
        res.cov["cache_lockstep"] = {"traces_compared": len(cx_ok), "divergences": len(cx_div),
                                     "multi_session": sum(1 for c, r in cx_ok if len(c.get("sessions", [])) > 1),
                                     "with_killed_worker": sum(1 for c, r in cx_ok if crashed(c)),
                                     "hits": sum(1 for c, r in cx_ok for t in r["trace"] if t[2][0] == "h5" and t[2][1] == "open-r"),
                                     "steps": sum(len(r["trace"]) for c, r in cx_ok)}
        if cx_div:
            pr["ok"] = False
            pr["broken"].append({"kind": "cache-lockstep", "error": cx_div[:2]})
        if cx_harness:
            pr["ok"] = False
            pr["broken"].append({"kind": "harness", "error": [(r.get("error") or "")[-300:] for r in cx_harness[:2]]})
    wait_path_fail = None
    if pid == "C09":
        # the key of a dependent call is computed from what the resolver forwards: both of its paths
        # (inputs done at submission / parked on the wait list) must forward the same objects
        import traverse
        try:
            bad = traverse.tie(res, 100 if res.tier == "quick" else 600)
            if bad:
                wait_path_fail = {"kind": "dep", "case": bad[0][0], "why": "resolver forwards different objects for the same call "
                                  "(cache key depends on when its inputs finished): %s vs model %s" % (bad[0][1][:300], bad[0][2][:120])}
        except core.CaseEvalError as ex:
            pr["ok"] = False
            pr["broken"].append({"kind": "case-eval", "error": str(ex)[-600:]})
    oracle = ORACLES[pid]
    fails, hits, harness = [], {}, []
    for k, c, r in runs:
        if r.get("verdict") in ("harness-error", "harness-timeout", "harness-stall") or "sessions" not in r:
            harness.append({"kind": k, "verdict": r.get("verdict"), "error": (r.get("error") or "")[-500:]})
            continue
        why = oracle(k, c, r)
        if why:
            if "#" in why:
                fid = why.rsplit("#", 1)[1].strip()
                hits[fid] = hits.get(fid, 0) + 1
            else:
                fails.append({"kind": k, "case": {a: b for a, b in c.items() if a != "schedule"},
                              "schedule": c.get("schedule", [])[:len(r.get("trace", []))], "why": why})
    extra_fails = extra(res, hits) if extra else []
    fails += extra_fails
    if wait_path_fail:
        fails.append(wait_path_fail)
    res.cov.update({"evaluations": len(runs), "distinct_nontrivial": len({json.dumps(r.get("trace")) for _, _, r in runs}),
                    "oplist_mismatches": len(tie_bad), "oracle_failures": len(fails), "known_finding_hits": hits,
                    "verdicts": {}, "rule": RULE, "harness_problems": len(harness), "corpus_cases": len(corpus),
                    "samples": [{"kind": k, "case": {a: b for a, b in c.items() if a != "schedule"},
                                 "sessions": [(s["verdict"], s["dir"]) for s in r.get("sessions", [])]} for k, c, r in runs[:2]]})
    for k, c, r in runs:
        v = "%s:%s" % (k, r.get("verdict"))
        res.cov["verdicts"][v] = res.cov["verdicts"].get(v, 0) + 1
    res.cov["crash_kinds"] = {}
    for k, c, r in runs:
        for s in c.get("sessions", []):
            if s.get("crash"):
                key = s["crash"]["entity"][0]
                res.cov["crash_kinds"][key] = res.cov["crash_kinds"].get(key, 0) + 1
    res.assumptions = ASSUME
    open_ids = {f["id"]: f for f in core.load_findings()["open"] if f["property"] == pid}
    for fid, cnt in hits.items():
        if fid in open_ids:
            res.known.append("id=%s %s (reproduced on %d explored cases)" % (fid, open_ids[fid]["what"], cnt))
        else:
            fails.append({"why": "failure matched trigger %s which is not listed as open for %s" % (fid, pid)})
    if harness:
        pr["ok"] = False
        pr["broken"].append({"kind": "harness", "error": harness[:2]})
    if tie_bad:
        pr["ok"] = False
        pr["broken"].append({"kind": "oplist-tie", "error": tie_bad})
    if fails:
        f = min(fails, key=lambda x: len(json.dumps(x, default=str)))
        res.violation("implementation run violates the property's oracle", {"kind": "oracle", "case": f, "count": len(fails),
                                                                            "broken_tie": pr["broken"]})
    elif not pr["ok"]:
        res.violation("proof or model/code correspondence no longer checks; no failing run found",
                      {"kind": "tie", "broken": pr["broken"]}, found_input=False)


def replay_case(path):
    r = json.load(open(path))["replay"]
    print(json.dumps(r, indent=1)[:4000])
    return 0
