"""C09 — see props/cachefile.py (operation-list tie, oracles) and DESIGN.md section 5."""
import cachefile

CONE = ["Model/CacheFs.v", "Model/FileFlow.v", "Proofs/CacheProofs.v", "Model/Exec.v", "Model/StepExec.v", "Model/FileExec.v", "Model/FileSpec.v", "Proofs/FileSafe.v", "Model/CacheExec.v", "Model/CacheSpec.v", "Proofs/CacheSafe.v", "Model/FileShow.v", "Proofs/FileRefuteKey.v"]


def extra(res, hits):
    import C08
    res.cov["cross_process_key_probes"] = 3
    return C08.cross_process_keys()


def run(res):
    cachefile.cache_check(res, "C09", CONE, extra=extra, gen=["Serialize", "CacheRes", "CacheKey"])


def replay(path):
    return cachefile.replay_case(path)
