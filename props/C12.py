"""C12 — see props/concur_props.py (models, oracle, cone) and DESIGN.md section 5."""
import concur
import concur_props


def run(res):
    concur_props.run(res, "C12")


def replay(path):
    return concur.replay_case(path)
