"""Property oracles over implementation runs under the deterministic simulator (DESIGN 6.1).
Each returns None or a one-line reason.  They never consult the Coq model."""
import lockstep
from concur import has_fail


def done_state(st):
    return st not in ("pending", "running")


def closed_before(r, op_index):
    """an earlier shutdown / exit had already returned normally (the executor's handles are gone)"""
    return any(o[0] in ("shutdown", "exit") and o[-1] == "ok" for o in r["outcomes"][:op_index])


def after_failed_shutdown(r):
    """the client is blocked in result() of a call that it submitted after a shutdown / exit had
    re-raised a failed call's exception (the executor stays open although its threads are dead)"""
    outs = r["outcomes"]
    first = next((k for k, o in enumerate(outs) if o[0] in ("shutdown", "exit") and o[-1] != "ok"), None)
    if first is None:
        return False
    parked = r.get("parked", {}).get("M")
    if not parked or parked[0] != "result":
        return False
    later = [o[1] for o in outs[first:] if o[0] == "submit" and o[-1] == "ok"]
    return parked[1] in later


def tag(why, t):
    """failures that match a listed finding carry its id after '#'"""
    return "%s #%s" % (why, t)


def submitted_ids(r):
    return [o[1] for o in r["outcomes"] if o[0] == "submit" and o[-1] == "ok"]


def deps_closure_failed(case):
    """calls that raise themselves or depend (transitively) on one that does"""
    bad = set()
    for i, c in enumerate(case["calls"], 1):
        if c.get("raises") or any(d in bad for d in c.get("deps", [])):
            bad.add(i)
    return bad


def cancelled_true(r):
    return [o[1] for o in r["outcomes"] if o[0] == "cancel" and o[-1] is True]


def expected_value(case, i, values):
    c = case["calls"][i - 1]
    args = [values.get(str(d)) for d in c.get("deps", [])]
    for _ in range(int(c.get("nest") or 0)):
        args = [args]
    return ["v", i] + args


# ---------------------------------------------------------------- C01
def c01(kind, case, r):
    for i_s, st in r["futures"].items():
        i = int(i_s)
        if st.startswith("res:"):
            v = r["values"].get(i_s)
            if st != "res:v%d" % i:
                return "future %d holds %s: the value of another call" % (i, st)
            if v is not None and all(r["values"].get(str(d)) is not None for d in case["calls"][i - 1].get("deps", [])):
                if v != expected_value(case, i, r["values"]):
                    return "future %d holds %r, direct evaluation gives %r" % (i, v, expected_value(case, i, r["values"]))
    for o in r["outcomes"]:
        if o[0] == "result" and str(o[-1]).startswith("res:") and o[-1] != "res:v%d" % o[1]:
            return "result() of future %d returned %s" % (o[1], o[-1])
    return None


# ---------------------------------------------------------------- C02
def livelock(r):
    if r["verdict"] == "steplimit":
        tail = [" ".join(str(x) for x in lab) for en, pick, lab in r["trace"][-6:]]
        return "run does not come to rest within %d steps (livelock); last steps %r; futures %r" % (
            len(r["trace"]), tail, r["futures"])
    return None


def c02(kind, case, r):
    if has_fail(case):
        return None
    if livelock(r):
        return livelock(r)
    if r["verdict"] == "deadlock":
        return "run blocks forever: parked %r" % (r.get("parked"),)
    for i in submitted_ids(r):
        if not done_state(r["futures"].get(str(i), "pending")):
            return "future %d is still %s when everything has come to rest" % (i, r["futures"].get(str(i)))
    for s in r.get("snaps", []):
        waited = (s["op"][0] == "exit") or (s["op"][0] == "shutdown" and s["op"][1])
        if waited:
            for i in submitted_ids(r):
                st = s["futs"].get(str(i))
                if st is not None and not done_state(st):
                    why = "future %d is %s after %s returned" % (i, st, s["op"])
                    return tag(why, "D24") if closed_before(r, s["op_index"]) else why
    return None


# ---------------------------------------------------------------- C05
def c05(kind, case, r):
    if livelock(r) and not has_fail(case):
        return livelock(r)
    if r["verdict"] == "deadlock" or (r["verdict"] == "quiescent" and "M" in r.get("parked", {})):
        # quiescent with the client parked: only fruitless pollers still run, the client waits forever
        why = "shutdown / program blocks forever: parked %r" % (r.get("parked"),)
        if has_fail(case) and after_failed_shutdown(r):
            return tag(why, "D25")
        return tag(why, "D23") if has_fail(case) and case["mode"] in ("block", "dep-block") else why
    closed = False
    for o in r["outcomes"]:
        if o[0] in ("shutdown", "exit"):
            if o[-1] != "ok" and not has_fail(case):
                return "%s raised %s although no call failed" % (o[0], o[-1])
            if o[-1] == "ok":
                closed = True
        if o[0] == "submit" and closed and o[-1] == "ok":
            return "submit accepted after shutdown"
    return None


# ---------------------------------------------------------------- C06
def c06_file(case, r):
    """file-based executor (the property quantifies over all executor modes)"""
    canon = lambda i: case["calls"][i - 1].get("same_as", i)  # noqa
    ct = cancelled_true(r)
    subs = submitted_ids(r)
    bodies = {lab[1] for en, pick, lab in r["trace"] if lab[0] == "body"}
    for i in ct:
        others = [j for j in subs if j != i and canon(j) == canon(i) and j not in ct]
        if canon(i) in bodies and not others:
            return tag("file mode: cancel() returned True for call %d but its function was executed (a started call is never marked "
                       "running, and a call cancelled while queued is launched all the same)" % i, "D22")
        if r["futures"].get(str(i)) != "cancelled":
            return "file mode: cancel() returned True for call %d but its future ends as %s" % (i, r["futures"].get(str(i)))
    fdead = r["ents"].get("F", [None, None])[1]
    if fdead:
        why = "file mode: the loop thread died with %s; calls %r are lost" % (
            fdead, [i for i in subs if not done_state(r["futures"].get(str(i), "pending"))])
        return tag(why, "D22") if ct else why
    for s in r.get("snaps", []):
        if s["op"][0] == "shutdown" and s["op"][2]:
            started = {lab[1] for en, pick, lab in r["trace"][:s["step"]] if lab[0] == "body"}
            for i in subs:
                if i not in ct and canon(i) in started and r["futures"].get(str(i), "pending") == "pending" \
                        and r["verdict"] in ("done", "quiescent", "deadlock"):
                    return tag("file mode: shutdown(cancel_futures=True) terminated call %d, which had already started; its future "
                               "stays pending for ever" % i, "D26")
    for i in subs:
        st = r["futures"].get(str(i), "pending")
        if st.startswith("res:") and st != "res:v%d" % canon(i):
            return "file mode: future %d holds %s" % (i, st)
    return None


def c06(kind, case, r):
    if case.get("mode") == "file":
        return c06_file(case, r)
    has_dups = any(c.get("same_as") for c in case.get("calls", []))
    if case.get("cache") and has_dups and cancelled_true(r):
        killed = [n for n, e in r["ents"].items() if n[0] == "W" and e[1] == "InvalidStateError"]
        if killed:
            return tag("cache hit on a cancelled future: set_result raises InvalidStateError and kills worker thread(s) %r; "
                       "futures %r" % (killed, r["futures"]), "D18")
    any_cancel = bool(cancelled_true(r)) or any(o[0] == "shutdown" and len(o) > 2 and o[2] for o in case.get("ops", []))
    if any_cancel and not has_fail(case):
        if "R:result" in r.get("blocked_kinds", []):
            return ("the dependency resolver thread blocked in result() of an unfinished future after a cancellation: "
                    "every other call is held up until that input finishes")
        died = [n for n, e in r["ents"].items() if n[0] in "WDR" and e[1]]
        if (r["verdict"] == "deadlock" or (r["verdict"] == "quiescent" and "M" in r.get("parked", {}))) and not died:
            # (a thread that died of an exception of its own — e.g. two identical calls colliding in the cache,
            # finding D17 of C08 — blocks the others as after any failing call: not a consequence of the cancellation)
            why = "the program blocks for ever after a cancellation: parked %r" % (r.get("parked"),)
            return why
    bodies = {lab[1] for en, pick, lab in r["trace"] if lab[0] == "body"}
    has_dups = any(c.get("same_as") for c in case.get("calls", []))
    for i in cancelled_true(r):
        if i in bodies and not has_dups:
            return "cancel() returned True for call %d but its function was executed" % i
        if r["futures"].get(str(i)) != "cancelled":
            return "cancel() returned True for call %d but its future ends as %s" % (i, r["futures"].get(str(i)))
    for s in r.get("snaps", []):
        if s["op"][0] == "shutdown" and s["op"][2] and s["op"][1] and not has_fail(case):
            for i in submitted_ids(r):
                st = s["futs"].get(str(i))
                if st is not None and not done_state(st):
                    why = "future %d is %s after shutdown(wait=True, cancel_futures=True)" % (i, st)
                    return tag(why, "D24") if closed_before(r, s["op_index"]) else why
    if not has_fail(case):
        for i in submitted_ids(r):
            st = r["futures"].get(str(i), "pending")
            if st.startswith("res:") and st != "res:v%d" % case["calls"][i - 1].get("same_as", i) and st != "res:None":
                return "future %d holds %s" % (i, st)
            if r["verdict"] != "deadlock" and not done_state(st):
                return "future %d is %s at the end (lost through a cancellation?)" % (i, st)
    return None


# ---------------------------------------------------------------- C07
def limit_of(kind, case):
    if case["mode"] == "block":
        return ("workers", case.get("workers", 1))
    if case["mode"] == "dep-block":
        return ("workers", case.get("max_workers", 1))
    if case.get("max_cores") is not None:
        return ("cores", case["max_cores"])
    if case.get("max_workers") is not None:
        return ("workers", case["max_workers"])
    return (None, None)


def c07(kind, case, r):
    what, lim = limit_of(kind, case)
    executing = {}
    for k, (en, pick, lab) in enumerate(r["trace"]):
        if lab[0] == "zrecv" and str(lab[1]).startswith("C") and str(lab[2]).startswith("call"):
            if lab[1] in executing:
                return "process %s received a call while executing call %d" % (lab[1], executing[lab[1]])
            executing[lab[1]] = int(str(lab[2])[4:])
        elif lab[0] == "zsend" and str(lab[1]).startswith("C") and lab[1] in executing:
            del executing[lab[1]]
        if what == "cores":
            use = sum(lockstep.eff_slots(case, i) for i in executing.values())
            if use > lim:
                return "step %d: executing calls %r use %d slots > max_cores=%d" % (k, sorted(executing.values()), use, lim)
        elif what == "workers" and len(executing) > lim:
            return "step %d: %d calls execute at once > %d" % (k, len(executing), lim)
    if not has_fail(case) and r["verdict"] == "deadlock":
        return "a request that fits is never started: parked %r" % (r.get("parked"),)
    if not has_fail(case) and livelock(r):
        return "a request that fits is never started: " + livelock(r)
    return None


# ---------------------------------------------------------------- C11
def c11(kind, case, r):
    per_proc = {}
    order = []
    for en, pick, lab in r["trace"]:
        if lab[0] == "zrecv" and str(lab[1]).startswith("C") and str(lab[2]).startswith("call"):
            per_proc.setdefault(lab[1], []).append(int(str(lab[2])[4:]))
        if lab[0] == "body":
            order.append(lab[1])
    if case["mode"] in ("step", "dep-step"):
        for p, cs in per_proc.items():
            if len(cs) > 1:
                return "process %s executed calls %r: not a fresh process per call" % (p, cs)
    else:
        spawns = [lab[1] for en, pick, lab in r["trace"] if lab[0] == "spawn"]
        n = case.get("workers", case.get("max_workers", 1))
        if len(spawns) > n:
            return "%d processes spawned for %d workers" % (len(spawns), n)
        if n == 1 and case["mode"] == "block":
            subs = [o[1] for o in r["outcomes"] if o[0] == "submit" and o[-1] == "ok"]
            want = [i for i in subs if i in order]
            if order != want:
                return "single worker executed %r, submission order is %r" % (order, want)
        if n == 1 and case["mode"] == "dep-block" and not any(o[0] == "cancel" or (o[0] == "shutdown" and o[2]) for o in case["ops"]) \
                and not has_fail(case):
            # with the resolver in front: a call whose inputs had all finished when it was submitted is forwarded at once,
            # so it is executed before every call submitted after it
            sub_at, done_at, body_at = {}, {}, {}
            for k, (en, pick, lab) in enumerate(r["trace"]):
                if lab[0] == "put" and pick == "M" and str(lab[2]).startswith("T"):
                    sub_at.setdefault(int(str(lab[2])[1:]), k)
                elif lab[0] in ("setres", "setexc"):
                    done_at.setdefault(lab[1], k)
                elif lab[0] == "body":
                    body_at.setdefault(lab[1], k)
            for a in sorted(sub_at, key=sub_at.get):
                deps = case["calls"][a - 1].get("deps", [])
                if a not in body_at or any(d not in done_at or done_at[d] > sub_at[a] for d in deps):
                    continue
                for b in sub_at:
                    if sub_at[b] > sub_at[a] and b in body_at and body_at[b] < body_at[a]:
                        return ("single worker behind the resolver: call %d (all inputs finished when it was submitted) was "
                                "submitted before call %d but executed after it" % (a, b))
    return None


# ---------------------------------------------------------------- C12
def c12(kind, case, r):
    for s in r.get("snaps", []):
        waited = (s["op"][0] == "exit") or (s["op"][0] == "shutdown" and s["op"][1])
        if waited and s["procs_alive"]:
            why = "worker processes %r still alive when %s returned" % (s["procs_alive"], s["op"])
            if closed_before(r, s["op_index"]):
                return tag(why, "D24")
            outc = r["outcomes"][s["op_index"]][-1] if s["op_index"] < len(r["outcomes"]) else "blocked"
            if has_fail(case) and outc != "ok":
                owner = {lab[1]: pick for en, pick, lab in r["trace"] if lab[0] == "spawn"}
                if case["mode"] == "block" and any(owner.get(p) not in s.get("threads_live", []) for p in s["procs_alive"]):
                    return why + " (and the thread that owned it has already ended: a failing call did not shut its worker down)"
                return tag(why, "D16")
            return why
    if r["verdict"] in ("done", "quiescent"):
        alive = [n for n, p in r["procs"].items() if p["alive"]]
        if alive and not has_fail(case):
            return "worker processes %r never exit" % (alive,)
    if r["verdict"] == "deadlock":
        why = "run blocks forever with threads %r parked and processes %r alive" % (
            r.get("parked"), [n for n, p in r["procs"].items() if p["alive"]])
        if has_fail(case) and after_failed_shutdown(r):
            return None      # the client waits for a call it submitted after a failed shutdown (C05 finding D25); no ghost process involved
        return tag(why, "D23") if has_fail(case) and case["mode"] in ("block", "dep-block") else why
    return None


# ---------------------------------------------------------------- C03
def c03(kind, case, r):
    if not has_fail(case) and livelock(r):
        return livelock(r)
    if not has_fail(case) and r["verdict"] == "deadlock":
        return "program of dependent calls blocks forever: parked %r futures %r" % (r.get("parked"), r["futures"])
    first_body = {}
    done_at = {}
    for k, (en, pick, lab) in enumerate(r["trace"]):
        if lab[0] == "body" and lab[1] not in first_body:
            first_body[lab[1]] = k
        if lab[0] in ("setres", "setexc") and lab[1] not in done_at:
            done_at[lab[1]] = k
    for i, c in enumerate(case["calls"], 1):
        if i in first_body:
            for d in c.get("deps", []):
                if d not in done_at or done_at[d] > first_body[i]:
                    return "call %d started at step %d before its input %d finished" % (i, first_body[i], d)
    if not has_fail(case) and r["verdict"] in ("done", "quiescent"):
        for i in submitted_ids(r):
            deps = case["calls"][i - 1].get("deps", [])
            if deps and r["futures"].get(str(i), "pending") == "pending" and \
                    all(str(r["futures"].get(str(d), "")).startswith("res:") for d in deps):
                return "call %d never runs although all its inputs %r hold results (everything has come to rest)" % (i, deps)
    bad = deps_closure_failed(case)
    for i_s, v in r["values"].items():
        i = int(i_s)
        if v is not None and i not in bad:
            if all(r["values"].get(str(d)) is not None for d in case["calls"][i - 1].get("deps", [])):
                exp = expected_value(case, i, r["values"])
                if v != exp:
                    return "call %d received %r, sequential evaluation gives %r" % (i, v, exp)
    return None


# ---------------------------------------------------------------- C04
def c04(kind, case, r):
    bad = deps_closure_failed(case)
    cancelled = set()
    for i_s, st in r["futures"].items():
        if st == "cancelled":
            cancelled.add(int(i_s))
    # a call depending on a cancelled input fails as well (CancelledError): widen
    for i, c in enumerate(case["calls"], 1):
        if any(d in cancelled or d in bad for d in c.get("deps", [])):
            bad.add(i)
    for i_s, st in r["futures"].items():
        i = int(i_s)
        if st.startswith("exc:") and i not in bad:
            return "future %d reports %s but neither it nor any of its inputs failed" % (i, st)
        if case["calls"][i - 1].get("raises") and st.startswith("res:"):
            return "future %d of a raising call holds a value %s" % (i, st)
    reraised = any(o[0] in ("shutdown", "exit") and o[-1] != "ok" for o in r["outcomes"])
    if reraised:
        return None     # after a shutdown that re-raised, the executor is in the state described by D16
    if case["mode"] in ("step", "dep-step") and r["verdict"] != "deadlock":
        for i in submitted_ids(r):
            st = r["futures"].get(str(i), "pending")
            if i not in bad and i not in cancelled and not done_state(st) and not any(
                    o[0] in ("shutdown",) and o[-1] != "ok" for o in r["outcomes"]):
                return "call %d does not depend on a failed call but is still %s" % (i, st)
    if case["mode"].startswith("dep") and r["verdict"] != "deadlock":
        for i in submitted_ids(r):
            st = r["futures"].get(str(i), "pending")
            c = case["calls"][i - 1]
            if any(d in deps_closure_failed(case) for d in c.get("deps", [])) and not done_state(st) \
                    and case["mode"] == "dep-step":
                return "call %d depends on a failed call and is still %s (waits forever)" % (i, st)
    return None
