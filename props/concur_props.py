"""The concurrent properties: which models, oracle, known-finding ids and proof cone each uses."""
import os

import concur
import core
import oracles

SAFE = ["Model/Exec.v", "Model/ExecInv.v", "Proofs/ExecSafe.v", "Proofs/ExecCor.v"]
LIVE = SAFE + ["Proofs/ExecLive.v", "Proofs/ExecMeasure.v", "Proofs/ExecLiveCor.v"]

TABLE = {
    "C01": dict(kinds=["block", "step", "dep"], oracle=oracles.c01, cone=SAFE, n=(70, 700)),
    "C02": dict(kinds=["block", "step", "dep"], oracle=oracles.c02, cone=LIVE, n=(70, 700)),
    "C03": dict(kinds=["dep"], oracle=oracles.c03,
                cone=["Model/Exec.v", "Model/ExecInv.v", "Model/StepExec.v", "Model/DepExec.v", "Proofs/ExecLive.v", "Proofs/DepSafe.v"], n=(180, 1500)),
    "C04": dict(kinds=["dep", "step", "block"], oracle=oracles.c04,
                cone=["Model/Exec.v", "Model/ExecInv.v", "Model/StepExec.v", "Model/DepExec.v", "Model/Worker.v", "Proofs/ExecLive.v",
                      "Proofs/DepSafe.v", "Proofs/C04Proofs.v"], n=(70, 700)),
    "C05": dict(kinds=["block", "step", "dep"], oracle=oracles.c05, cone=LIVE, n=(70, 700)),
    "C06": dict(kinds=["block", "step", "dep"], oracle=oracles.c06, cone=SAFE, n=(70, 700)),
    "C07": dict(kinds=["step", "dep", "block"], oracle=oracles.c07,
                cone=SAFE + ["Model/StepExec.v", "Proofs/StepSafe.v", "Proofs/DictFacts.v", "Proofs/C10Proofs.v"], n=(90, 800)),
    "C11": dict(kinds=["block", "step", "dep"], oracle=oracles.c11, cone=SAFE + ["Model/StepExec.v", "Proofs/StepSafe.v"], n=(70, 700)),
    "C12": dict(kinds=["block", "step", "dep"], oracle=oracles.c12, cone=LIVE, n=(70, 700)),
}

RULE = ("seeded programs of submit / cancel / result / shutdown(wait, cancel_futures) / with-exit operations (implicit drop at "
        "the end) with 0-4 calls (some raising, some depending on earlier futures, nested-list arguments, per-call resources) on "
        "block-allocation (1-3 workers), per-call-process (max_cores / max_workers limits) and dependency-resolving executors, each "
        "under a seeded schedule (uniform, biased, bursty); the real executorlib runs under the deterministic simulator, the "
        "implementation's picks are replayed on the Coq model (vm_compute) and enabled sets, labels and final observations are "
        "compared step by step; the property's oracle is evaluated on every implementation run; distinct = distinct traces")
ASSUME = ["simulator: instrumented Queue/Future/RaisingThread, in-process PAIR sockets (reliable, ordered), Popen replaced by a "
          "thread running the real interactive_serial.main; code between two points touches thread-local state only",
          "CPython Future / queue.Queue semantics as modelled in Model/Exec.v",
          "cloudpickle round trip of calls and values (not modelled)",
          "weak fairness of the OS scheduler for 'eventually' claims"]


def known(kind, case, result, why):
    if "#" in why:
        return why.rsplit("#", 1)[1].strip()
    return None


def run(res, pid):
    t = TABLE[pid]
    ready = os.path.exists(os.path.join(core.TH, "Props", pid + ".v"))
    cone = [f for f in t["cone"] if os.path.exists(os.path.join(core.TH, f))]
    concur.concurrent_check(res, pid, cone, t["kinds"], t["n"][0], t["n"][1], t["oracle"], known, RULE, ASSUME,
                            props_ready=ready)
    if not ready:
        res.notes.append("Props/%s.v not present yet: this run checked the lockstep tie and the oracle only" % pid)
        res.cov["obligations"] = res.cov.get("obligations") or 0
