"""The concurrent properties: which models, oracle, known-finding ids and proof cone each uses."""
import os

import concur
import core
import oracles

SAFE = ["Model/Exec.v", "Model/ExecInv.v", "Proofs/ExecSafe.v", "Proofs/ExecCor.v"]
LIVE = SAFE + ["Proofs/ExecLive.v", "Proofs/ExecMeasure.v", "Proofs/ExecLiveCor.v",
               "Model/StepExec.v", "Model/DepExec.v", "Model/LiveSpec.v", "Proofs/DepSafe.v", "Proofs/DepLive.v", "Proofs/DepLiveStep.v", "Proofs/DepLiveCor.v", "Proofs/DepMeasure.v", "Proofs/Fidelity.v", "Proofs/DepCeiling.v", "Proofs/DepMeasureStep.v",
               "Proofs/StepSafe.v", "Proofs/StepLive.v", "Proofs/StepLiveCor.v", "Proofs/Refute.v",
               "Model/FileExec.v", "Model/FileSpec.v", "Model/CacheExec.v", "Model/CacheSpec.v", "Model/CacheLiveSpec.v", "Proofs/CacheSafe.v",
               "Proofs/CacheCancel.v", "Proofs/CacheLive.v", "Proofs/CacheLiveCor.v"]

TABLE = {
    "C01": dict(kinds=["block", "step", "dep", "cblock"], oracle=oracles.c01,
                cone=SAFE + ["Model/StepExec.v", "Model/DepExec.v", "Proofs/StepSafe.v", "Proofs/DepSafe.v", "Proofs/Fidelity.v"], n=(70, 700)),
    "C02": dict(kinds=["block", "step", "dep", "cblock", "cstep", "ublock"], oracle=oracles.c02, cone=LIVE, n=(70, 700)),
    "C03": dict(kinds=["dep"], oracle=oracles.c03,
                cone=["Model/Exec.v", "Model/ExecInv.v", "Model/StepExec.v", "Model/DepExec.v", "Proofs/ExecLive.v", "Proofs/DepSafe.v",
                      "Model/Traverse.v", "Proofs/TraverseProofs.v", "Model/LiveSpec.v", "Proofs/StepSafe.v", "Proofs/StepLive.v", "Proofs/DepLive.v", "Proofs/DepLiveStep.v", "Proofs/DepLiveCor.v"], n=(180, 1500)),
    "C04": dict(kinds=["dep", "step", "block"], oracle=oracles.c04,
                cone=["Model/Exec.v", "Model/ExecInv.v", "Model/StepExec.v", "Model/DepExec.v", "Model/Worker.v", "Proofs/ExecLive.v",
                      "Proofs/DepSafe.v", "Proofs/C04Proofs.v"], n=(70, 700)),
    "C05": dict(kinds=["block", "step", "dep", "cblock", "cstep", "ublock"], oracle=oracles.c05, cone=LIVE, n=(70, 700)),
    "C06": dict(kinds=["block", "step", "dep", "cblock", "cstep", "fexec", "cblockd"], oracle=oracles.c06,
                cone=SAFE + ["Proofs/ExecStarted.v", "Proofs/CacheStarted.v", "Model/StepExec.v", "Model/FileExec.v", "Model/FileSpec.v", "Model/CacheExec.v", "Model/CacheSpec.v",
                             "Proofs/FileSafe.v", "Proofs/FileRefute.v", "Proofs/CacheSafe.v", "Proofs/CacheCancel.v",
                             "Model/DepExec.v", "Proofs/StepSafe.v", "Proofs/DepSafe.v", "Proofs/Fidelity.v"], n=(70, 700)),
    "C07": dict(kinds=["step", "dep", "block", "cstep"], oracle=oracles.c07,
                cone=SAFE + ["Model/StepExec.v", "Model/LiveSpec.v", "Proofs/StepSafe.v", "Proofs/StepLive.v", "Proofs/StepLiveCor.v",
                             "Proofs/DictFacts.v", "Proofs/C10Proofs.v", "Base/Dec.v", "Base/PyLib.v",
                             "Model/DepExec.v", "Proofs/DepSafe.v", "Proofs/Fidelity.v", "Proofs/DepCeiling.v"], n=(90, 800)),
    "C11": dict(kinds=["block", "step", "dep", "cblock", "cstep"], oracle=oracles.c11,
                cone=SAFE + ["Model/StepExec.v", "Proofs/StepSafe.v", "Proofs/ExecOrder.v", "Model/DepExec.v", "Model/DepOrderSpec.v",
                             "Proofs/DepSafe.v", "Proofs/Fidelity.v", "Proofs/DepMeasure.v", "Proofs/DepOrder.v"], n=(70, 700)),
    "C12": dict(kinds=["block", "step", "dep", "cblock", "cstep", "ublock"], oracle=oracles.c12, cone=LIVE, n=(70, 700)),
}

RULE = ("seeded programs of submit / cancel / result / shutdown(wait, cancel_futures) / with-exit operations (implicit drop at "
        "the end) with 0-4 calls (some raising, some depending on earlier futures, nested-list arguments, per-call resources) on "
        "block-allocation (1-3 workers; block and per-call executors also with cache_directory set, where the run is compared with the same model after "
        "projecting the directory/HDF5 operations away and where an injected I/O fault may hit the k-th HDF5 operation), per-call-process (max_cores / max_workers limits) and dependency-resolving executors, each "
        "under a seeded schedule (uniform, biased, bursty); the real executorlib runs under the deterministic simulator, the "
        "implementation's picks are replayed on the Coq model (vm_compute) and enabled sets, labels and final observations are "
        "compared step by step; the property's oracle is evaluated on every implementation run; distinct = distinct traces")
ASSUME = ["simulator: instrumented Queue/Future/RaisingThread, in-process PAIR sockets (reliable, ordered), Popen replaced by a "
          "thread running the real interactive_serial.main; code between two points touches thread-local state only",
          "CPython Future / queue.Queue semantics as modelled in Model/Exec.v",
          "cloudpickle round trip of calls and values (not modelled)",
          "weak fairness of the OS scheduler for 'eventually' claims"]


def known(kind, case, result, why):
    if "#" in why:
        return why.rsplit("#", 1)[1].strip()
    return None


def exception_fidelity(res):
    """C04 (a) on the real code: the parent's receive_dict raises an exception of the same class and
    with the same arguments as the one the worker sent, for builtin, stdlib and user-defined classes"""
    import json as _json
    import cloudpickle
    from executorlib.standalone.interactive.communication import SocketInterface
    rng = res.rng
    user = type("UserDefinedError", (Exception,), {})
    user2 = type("UserWithInit", (ValueError,), {})
    classes = [ValueError, KeyError, RuntimeError, TypeError, ZeroDivisionError, OSError, _json.JSONDecodeError,
               UnicodeDecodeError, user, user2, FileNotFoundError]
    fails, n = [], 0
    for _ in range(40 if res.tier == "quick" else 400):
        cls = rng.choice(classes)
        if cls is _json.JSONDecodeError:
            exc = cls("bad", "doc", rng.randint(0, 2))
        elif cls is UnicodeDecodeError:
            exc = cls("utf-8", b"x", 0, 1, "reason")
        else:
            exc = cls(*[rng.choice([1, "msg", (1, 2), None]) for _ in range(rng.randint(0, 3))])
        si = SocketInterface.__new__(SocketInterface)
        si._spawner = type("S", (), {"poll": lambda self: False})()
        si._socket, si._context, si._process = None, None, None
        payload = cloudpickle.dumps({"error": exc, "error_type": str(type(exc))})
        si._socket = type("Sock", (), {"recv": lambda self: payload, "close": lambda self: None})()
        n += 1
        try:
            si.receive_dict()
            fails.append("no exception raised for %r" % (exc,))
        except BaseException as got:  # noqa
            if type(got).__name__ != type(exc).__name__ or got.args != exc.args:
                fails.append("worker raised %s%r, the future reports %s%r" % (
                    type(exc).__name__, exc.args, type(got).__name__, got.args))
    return n, fails


def ctor_limits(res):
    """C07: the limits the dispatcher thread is started with are the constructor's own arguments, whatever the
    executor_kwargs dictionary held before (an entry left by an earlier executor built from the same user dictionary).
    The real InteractiveStepExecutor.__init__ (thread creation replaced by a recorder) vs the regenerated step_ctor."""
    from unittest import mock
    import importlib
    from core import Obj, pyval, show
    sh = importlib.import_module("executorlib.interactive.shared")
    rng = res.rng
    fails, exprs, want, inputs = [], [], [], []
    for _ in range(60 if res.tier == "quick" else 600):
        mc = rng.choice([None, 1, 2, 3])
        mw = rng.choice([None, 1, 2])
        ek = {}
        if rng.random() < 0.5:
            ek["max_cores"] = rng.choice([None, 1, 3, 5])        # stale entry
        if rng.random() < 0.3:
            ek["max_workers"] = rng.choice([None, 2, 4])
        if rng.random() < 0.5:
            ek["cores"] = rng.choice([1, 2])
        given = dict(ek)
        rec = {}

        class Rec:
            def __init__(self, target=None, kwargs=None):
                rec["kwargs"] = kwargs

            def start(self):
                pass
        with mock.patch.object(sh, "RaisingThread", Rec):
            ex = sh.InteractiveStepExecutor(max_cores=mc, max_workers=mw, executor_kwargs=ek, spawner="SP")
        ex._process = None
        ex._future_queue = None
        got = {k: (Obj("queue", 1) if k == "future_queue" else v) for k, v in rec["kwargs"].items()}
        if got.get("max_cores") != mc or got.get("max_workers") != mw:
            fails.append("InteractiveStepExecutor(max_cores=%r, max_workers=%r, executor_kwargs=%r): the dispatcher is started with "
                         "max_cores=%r, max_workers=%r" % (mc, mw, given, got.get("max_cores"), got.get("max_workers")))
        want.append("Ok " + show(got))
        inputs.append(dict(max_cores=mc, max_workers=mw, executor_kwargs=given))
        exprs.append("match step_ctor %s VNone %s %s %s %s with Ok d => \"Ok \" ++ show d | Err e => \"Err \" ++ e end" % (
            pyval(Obj("queue", 1)), pyval(mc), pyval(mw), pyval(given), pyval("SP")))
    try:
        outs = core.eval_strings(["Base.Dec", "Base.PyLib", "Base.Show", "Gen.StepCtor"], exprs, "C07_ctor")
    except core.CaseEvalError as ex:
        res.violation("Gen/StepCtor.v could not be evaluated: %s" % str(ex)[-400:], {"kind": "tie", "theorem": "Gen/StepCtor.v"},
                      found_input=False)
        outs = want
    res.cov["constructor_limit_cases"] = len(exprs)
    if fails:
        res.violation("the dispatcher is not started with the limits the executor was given",
                      {"kind": "oracle", "case": {"why": fails[0]}, "count": len(fails)})
    bad = [(i, w, o) for i, w, o in zip(inputs, want, outs) if w != o]
    if bad and not fails:
        res.violation("InteractiveStepExecutor.__init__ and its regenerated model disagree",
                      {"kind": "tie", "case": bad[0][0], "implementation": bad[0][1], "model": bad[0][2]}, found_input=False)


def cached_rest_on_traces(res):
    """the statement proved in Proofs/CacheLive.v (Model/CacheLiveSpec.v: crest_ok_b) evaluated along kill-free sessions of the
    real block executor with cache_directory (later sessions start from the directory the earlier ones left: hits)"""
    import cachefile
    import lockstep
    rng = res.rng
    n = 30 if res.tier == "quick" else 300
    cases = []
    while len(cases) < n:
        c = cachefile.gen_cache_case(rng)
        bad = False
        for s in c["sessions"]:
            s.pop("crash", None)
            ids = [o[1] for o in s["ops"] if o[0] == "submit"]
            cs = [c["calls"][i - 1].get("same_as", i) for i in ids]
            bad = bad or len(set(cs)) != len(cs)
        if bad:
            continue
        c["schedule"] = lockstep.gen_schedule(rng, 2000)
        cases.append(c)
    results = lockstep.run_cases(cases)
    exprs, keep = [], []
    for c, r in zip(cases, results):
        if r["verdict"] not in ("done", "deadlock", "quiescent"):
            continue
        canon = [str(x.get("same_as", i + 1)) for i, x in enumerate(c["calls"])]
        parts, _ = lockstep.split_sessions_c(c, r)
        sess = []
        for s, entries in zip(lockstep.cexec_sessions(c), parts):
            picks = [lockstep.tid_coq(pick) for en, pick, lab in entries]
            sess.append("([%s], [%s])" % ("; ".join(lockstep.op_coq(o) for o in s["ops"]), "; ".join(picks)))
        exprs.append("(clive_case %d [%s] %d [%s])%%nat" % (c.get("workers", 1), "; ".join(canon), len(c["calls"]), "; ".join(sess)))
        keep.append(c)
    try:
        outs = core.eval_strings(["Base.Dec", "Model.Exec", "Model.CacheExec", "Model.CacheLiveShow"], exprs, "clive", shard=100)
    except core.CaseEvalError as ex:
        res.violation("Model/CacheLiveShow.v could not be evaluated: %s" % str(ex)[-400:], {"kind": "tie", "theorem": "Proofs/CacheLive.v"},
                      found_input=False)
        return
    res.cov["cached_rest_statement_traces"] = len(outs)
    res.cov["cached_rest_states"] = sum(int(o.split()[1]) for o in outs if o.startswith("ok "))
    bad = [(c, o) for c, o in zip(keep, outs) if not (o.startswith("ok ") or o == "skip")]
    if bad:
        c, o = bad[0]
        res.violation("a kill-free run of the cached block executor reaches a state in which nothing can move although the client, a "
                      "future, a process or a thread has not finished (Model/CacheLiveSpec.v crest_ok_b): %s" % o,
                      {"kind": "oracle", "case": {k: v for k, v in c.items() if k != "schedule"}, "schedule": c["schedule"][:400]})


def order_on_traces(res):
    """Model/DepOrderSpec.v (order_ok) evaluated along runs of the real resolver in front of ONE block worker: bodies run in
    forwarding order; calls forwarded directly are forwarded in submission order"""
    import lockstep
    rng = res.rng
    n = 30 if res.tier == "quick" else 300
    cases = []
    while len(cases) < n:
        c = lockstep.gen_dep_case(rng, allow_fail=False)
        if c["mode"] != "dep-block" or not c["calls"]:
            continue
        c["max_workers"] = 1
        c["schedule"] = lockstep.gen_schedule(rng, 4000)
        c["step_limit"] = 4000
        cases.append(c)
    results = lockstep.run_cases(cases)
    exprs, keep = [], []
    for c, r in zip(cases, results):
        if r["verdict"] not in ("done", "deadlock", "quiescent"):
            continue
        deps = ["[%s]" % "; ".join(str(d) for d in x.get("deps", [])) for x in c["calls"]]
        picks = [lockstep.tid_coq_x(t[1]) for t in r["trace"]]
        exprs.append("(dorder_case [] [%s] %d [%s] [%s])%%nat" % ("; ".join(deps), len(c["calls"]),
                     "; ".join(lockstep.op_coq(o) for o in c["ops"]), "; ".join(picks)))
        keep.append(c)
    try:
        outs = core.eval_strings(["Base.Dec", "Model.Exec", "Model.DepExec", "Model.DepOrderShow"], exprs, "dorder", shard=60)
    except core.CaseEvalError as ex:
        res.violation("Model/DepOrderShow.v could not be evaluated: %s" % str(ex)[-400:], {"kind": "tie", "theorem": "Model/DepOrderSpec.v"},
                      found_input=False)
        return
    res.cov["order_statement_traces"] = len(outs)
    res.cov["order_statement_bodies"] = sum(int(o.split()[1]) for o in outs if o.startswith("ok "))
    bad = [(c, o) for c, o in zip(keep, outs) if not (o.startswith("ok ") or o == "stuck")]
    if bad:
        c, o = bad[0]
        res.violation("one block worker behind the resolver: the executed bodies are not a subsequence of the forwarding order, or "
                      "directly forwarded calls are not forwarded in submission order (Model/DepOrderSpec.v order_ok): %s" % o,
                      {"kind": "oracle", "case": {k: v for k, v in c.items() if k != "schedule"}, "schedule": c["schedule"][:400]})


def real_slice(res, pid, kind, n_quick=2, n_thorough=10):
    """a few runs with real processes / real zmq / a real interpreter exit (harness/real.py)"""
    import sys
    sys.path.insert(0, os.path.join(core.ROOT, "harness"))
    import real
    outs = real.run_slice(kind, res.rng, n_quick if res.tier == "quick" else n_thorough)
    res.cov["real_process_cases"] = {"kind": kind, "ok": sum(1 for o in outs if o["status"] == "ok"),
                                     "inconclusive": [o for o in outs if o["status"] == "inconclusive"][:2],
                                     "failed": sum(1 for o in outs if o["status"] == "fail")}
    bad = [o for o in outs if o["status"] == "fail"]
    if bad:
        res.violation("real-process run violates the property", {"kind": "real-process", "case": bad[0], "count": len(bad)})


def run(res, pid):
    t = TABLE[pid]
    ready = os.path.exists(os.path.join(core.TH, "Props", pid + ".v"))
    cone = [f for f in t["cone"] if os.path.exists(os.path.join(core.TH, f))]
    concur.concurrent_check(res, pid, cone, t["kinds"], t["n"][0], t["n"][1], t["oracle"], known, RULE, ASSUME,
                            props_ready=ready)
    if pid in ("C01", "C12", "C11", "C04"):
        real_slice(res, pid, {"C01": "byvalue", "C12": "ghost", "C11": "state", "C04": "exc"}[pid])
    if pid == "C01":
        # with cache_directory a future yields the stored value of "the same call": what counts as the same call
        import C08
        kf, _ = C08.key_pair_fails(res.rng, 200 if res.tier == "quick" else 2000)
        res.cov["cache_key_pair_cases"] = 200 if res.tier == "quick" else 2000
        if kf:
            res.violation("with a cache directory two different calls are taken for the same call", {"kind": "oracle", "case": kf[0]})
    if pid == "C07":
        ctor_limits(res)
    if pid == "C02":
        cached_rest_on_traces(res)
    if pid == "C11":
        order_on_traces(res)
    if pid == "C03":
        import traverse
        try:
            bad = traverse.tie(res, 150 if res.tier == "quick" else 1500)
        except core.CaseEvalError as ex:
            bad = None
            res.violation("Model/Traverse.v could not be evaluated: %s" % ex, {"kind": "correspondence", "theorem": "Model/Traverse.v"}, found_input=False)
        if bad:
            c, g, w = bad[0]
            res.violation("the argument traversals differ from Model/Traverse.v (futures waited for / replaced)",
                          {"kind": "correspondence", "case": c, "implementation": g, "model": w, "count": len(bad)})
    if pid == "C04":
        n, fails = exception_fidelity(res)
        res.cov["exception_fidelity_cases"] = n
        if fails:
            res.violation("exception class/arguments changed between worker and future",
                          {"kind": "oracle", "case": {"why": fails[0]}, "count": len(fails)})
    if not ready:
        res.notes.append("Props/%s.v not present yet: this run checked the lockstep tie and the oracle only" % pid)
        res.cov["obligations"] = res.cov.get("obligations") or 0
