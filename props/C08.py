"""C08 — cache soundness: normaliser / key theorems, the regex tie and differential test of
Model/Blank.v, key-level pair tests on the real serialize_funct_h5, and the interactive-cache
oracle under the simulator (props/cachefile.py)."""
import importlib
import os
import re
import sys

import cachefile
import core

CONE = ["Model/Blank.v", "Model/CacheFs.v", "Model/FileFlow.v", "Proofs/BlankProofs.v", "Proofs/KeyProofs.v", "Proofs/CacheProofs.v", "Model/Exec.v", "Model/StepExec.v", "Model/FileExec.v", "Model/FileSpec.v", "Model/CacheExec.v", "Model/CacheSpec.v", "Proofs/CacheSafe.v", "Proofs/Refute.v", "Base/Dec.v", "Base/PyLib.v", "Proofs/KeyGen.v"]
TOKENS = ["/ipykernel_", "/ipykernel_", "12", "7", "007", "/", "x", "/tmp", "ipykernel_", "_", "/ipy", "9/", "abc/", " ", "-", "."]


def canon_digits(s):
    """normal form of `digits_equiv`: drop the digits of /ipykernel_<digits>/ segments"""
    return re.sub(r"(?<=/ipykernel_)([0-9]*)(?=/)", "", s)


def key_pair_fails(rng, n):
    """different calls never share a cache key (real serialize_funct_h5): functions that differ only in
    their body, their closure or a default value — same module, even the same qualified name —
    arguments, keyword arguments, resources"""
    fails = []
    ser = importlib.import_module("executorlib.standalone.serialize")

    def fa(x):
        return x

    def fb(x):
        return x
    fb.__name__ = "fa"

    def make(k):
        def inner(x):
            return x + k
        return inner
    g1, g2 = make(1), make(2)           # same module and qualified name, different closure: different calls
    l1, l2 = [lambda x, c=c: (x, c) for c in (10, 20)]      # two lambdas from one source line
    keys = {}
    for _ in range(n):
        fn = rng.choice([fa, fa, fb, g1, g2, l1, l2])
        arg = rng.choice([rng.randint(0, 3), "".join(rng.choice(TOKENS + ["\n"]) for _ in range(rng.randint(0, 6)))])
        kw = rng.choice([{}, {}, {"k": rng.randint(0, 1)}])
        rd = rng.choice([{}, {}, {"cores": rng.randint(1, 2)}])
        k = ser.serialize_funct_h5(fn, [arg], kw, rd)[0]
        ident = (id(fn), canon_digits(arg) if isinstance(arg, str) else arg, tuple(sorted(kw.items())), tuple(sorted(rd.items())))
        if k in keys and keys[k] != ident:
            names = {id(fa): "fa", id(fb): "fb (named fa)", id(g1): "make(1)", id(g2): "make(2)", id(l1): "lambda c=10", id(l2): "lambda c=20"}
            show = lambda t: (names.get(t[0], t[0]),) + t[1:]  # noqa
            fails.append({"why": "two different calls share the cache key %s: %r and %r (function, argument, kwargs, resources)" % (
                k, show(keys[k]), show(ident))})
            break
        keys[k] = ident
    # the same function OBJECT whose captured state changes between two submissions is a different call
    if not fails:
        box = [1]

        def hc(x):
            return x + box[0]
        glob = {"scale": 2}
        hg = eval("lambda x: x * scale", glob)          # a function reading a global of its own namespace
        for name, fn, change in (("a closure over a list that is modified", hc, lambda: box.__setitem__(0, box[0] + 1)),
                                 ("a function reading a module-level global that is reassigned", hg, lambda: glob.__setitem__("scale", glob["scale"] + 1))):
            before = [ser.serialize_funct_h5(fn, [1], {}, {})[0] for _ in range(2)]
            change()
            after = ser.serialize_funct_h5(fn, [1], {}, {})[0]
            if before[0] != before[1]:
                fails.append({"why": "the key of one and the same call is not stable: %r" % (before,)})
            elif after == before[0]:
                fails.append({"why": "%s keeps its cache key %s although it now computes something else "
                                     "(the earlier result would be served)" % (name, after)})
    return fails, fa


def keygen_diff(res, rng, n):
    """the real serialize_funct_h5 (cloudpickle.dumps and _get_hash replaced by recorders) against the regenerated
    Gen.Serialize.serialize_funct_h5 with the same stand-ins: key text and stored data must agree"""
    from unittest import mock
    from core import Obj, pyval, show
    ser = importlib.import_module("executorlib.standalone.serialize")
    exprs, want, inputs = [], [], []
    for _ in range(n):
        name = rng.choice(["f", "calc", "fa"])

        class Fn:
            pass
        fn = Fn()
        fn.__name__ = name
        args = rng.choice([[], [1], [1, "x"], [[2, 3]]])
        kw = rng.choice([{}, {"k": 1}, {"a": "b", "c": 2}])
        rd = rng.choice([{}, {"cores": 2}, {"cores": 1, "cwd": "/x"}])
        seen = []

        def dumps(obj):
            seen.append(obj)
            return ("P", obj)

        def get_hash(binary):
            return "h" + show({k: (Obj("fn", 1) if k == "fn" else v) for k, v in binary[1].items()})[:60]
        with mock.patch.object(ser.cloudpickle, "dumps", dumps), mock.patch.object(ser, "_get_hash", get_hash):
            key, data = ser.serialize_funct_h5(fn, args, kw, rd)
        canon = lambda d: {k: (Obj("fn", 1) if k == "fn" else v) for k, v in d.items()}  # noqa
        want.append("Ok " + show((key, canon(data))) + " | dumps saw " + show([canon(o) for o in seen]))
        inputs.append(dict(name=name, args=args, kwargs=kw, resource_dict=rd))
        exprs.append(("match serialize_funct_h5 (fun v => Ok (VTuple [VStr \"P\"; v])) "
                      "(fun b => match b with VTuple [_; d] => Ok (VStr (String.append \"h\" (substring 0 60 (show d)))) | _ => Err \"TypeError\" end) "
                      "%s %s %s %s %s with Ok r => \"Ok \" ++ show r ++ \" | dumps saw \" ++ show (VList [%s]) | Err e => \"Err \" ++ e end")
                     % (pyval(name), pyval(Obj("fn", 1)), pyval(args), pyval(kw), pyval(rd),
                        pyval({"fn": Obj("fn", 1), "args": args, "kwargs": kw, "resource_dict": rd})))
    outs = core.eval_strings(["Base.Dec", "Base.PyLib", "Base.Show", "Gen.Serialize"], exprs, "C08_keygen")
    res.cov["keygen_diff_cases"] = len(exprs)
    bad = [(i, w, o) for i, w, o in zip(inputs, want, outs) if w != o]
    if bad:
        return [{"why": "serialize_funct_h5 and its regenerated model disagree on %r: python %s, model %s" % bad[0], "tie": True}]
    return []


def file_mode_keys(rng, n):
    """the real cache/shared.execute_tasks_h5 run to completion in this thread with a recording launcher: which key does
    a call get under which executor-level / per-call resources?  Calls whose effective resources differ must not share a
    key; the same configuration twice must give the same key"""
    import queue
    import tempfile
    import shutil
    from concurrent.futures import Future
    csh = importlib.import_module("executorlib.cache.shared")
    fails = []

    def fa(x):
        return x

    def keys_for(exec_rd, call_rds):
        d = tempfile.mkdtemp(prefix="verif-key-")
        started = []

        def launcher(command, task_dependent_lst=[], resource_dict=None, config_directory=None, backend=None, cache_directory=None, **kw):
            started.append((os.path.basename(command[-1]), dict(resource_dict or {})))
            return object()
        q = queue.Queue()
        for rd in call_rds:
            q.put({"fn": fa, "args": (1,), "kwargs": {}, "future": Future(), "resource_dict": dict(rd)})
        q.put({"shutdown": True, "wait": True})
        try:
            csh.execute_tasks_h5(future_queue=q, cache_directory=d, execute_function=launcher, resource_dict=dict(exec_rd),
                                 terminate_function=None)
        finally:
            shutil.rmtree(d, ignore_errors=True)
        return started

    def eff(exec_rd, rd):
        m = dict(rd)
        for k, v in exec_rd.items():
            m.setdefault(k, v)
        return tuple(sorted(m.items(), key=lambda kv: kv[0]))
    seen = {}
    for _ in range(n):
        exec_rd = {"cores": rng.choice([1, 1, 2]), "cwd": rng.choice([None, "/a", "/b"])}
        if rng.random() < 0.3:
            exec_rd["threads_per_core"] = rng.choice([1, 2])
        rd = rng.choice([{}, {}, {"cores": rng.choice([1, 2])}, {"cwd": rng.choice(["/a", "/b"])}])
        try:
            st = keys_for(exec_rd, [rd])
            st2 = keys_for(exec_rd, [rd])
        except Exception as ex:  # noqa
            fails.append({"why": "execute_tasks_h5 with a recording launcher raised %s: %s" % (type(ex).__name__, ex), "tie": True})
            break
        if len(st) != 1 or len(st2) != 1:
            fails.append({"why": "file mode: one new call, launcher invoked %d times (executor %r, call %r)" % (len(st), exec_rd, rd)})
            break
        key, given = st[0]
        if st2[0][0] != key:
            fails.append({"why": "file mode: the key of one and the same call under one configuration is not stable: %s / %s" % (key, st2[0][0])})
            break
        e = eff(exec_rd, rd)
        if tuple(sorted(given.items(), key=lambda kv: kv[0])) != e:
            fails.append({"why": "file mode: launcher received resources %r, effective resources are %r" % (given, dict(e))})
            break
        if key in seen and seen[key][0] != e:
            fails.append({"why": "file mode: two calls that differ in their effective resources share the cache key %s: %r "
                                 "(executor-level %r, per-call %r) and %r (executor-level %r, per-call %r)"
                                 % (key, dict(seen[key][0]), seen[key][1], seen[key][2], dict(e), exec_rd, rd)})
            break
        seen.setdefault(key, (e, exec_rd, rd))
    return fails


def _probe_fn(x, y=0):
    return x


PROBE_CONFIGS = [({"cores": 1, "cwd": None}, {}), ({"cores": 2, "cwd": "/a"}, {}), ({"cores": 1, "cwd": None}, {"cwd": "/b"}),
                 ({"cores": 1, "cwd": "/a", "threads_per_core": 2}, {"cores": 2}), ({"cwd": None, "cores": 1}, {"cores": 1, "cwd": "/c"})]


def probe_main():
    """run in a fresh interpreter (python -c 'import C08; C08.probe_main()'): prints the cache keys this process computes for
    a fixed list of calls - interactive cache (serialize_funct_h5 as the worker thread calls it) and file mode (through the
    real execute_tasks_h5 with a recording launcher)"""
    import json
    import queue
    import shutil
    import tempfile
    from concurrent.futures import Future
    ser = importlib.import_module("executorlib.standalone.serialize")
    csh = importlib.import_module("executorlib.cache.shared")
    out = []
    for args, kw, rd in [([1], {}, {}), ([1, "a"], {"y": 2}, {}), ([[1, 2]], {"y": {"b": 1, "a": 2}}, {"cores": 2, "cwd": "/x"})]:
        out.append(ser.serialize_funct_h5(_probe_fn, args, kw, rd)[0])
    for exec_rd, rd in PROBE_CONFIGS:
        d = tempfile.mkdtemp(prefix="verif-key-")
        started = []

        def launcher(command, task_dependent_lst=[], resource_dict=None, config_directory=None, backend=None, cache_directory=None, **kw2):
            started.append(os.path.basename(command[-1]))
            return object()
        q = queue.Queue()
        q.put({"fn": _probe_fn, "args": (1,), "kwargs": {"y": 3}, "future": Future(), "resource_dict": dict(rd)})
        q.put({"shutdown": True, "wait": True})
        try:
            csh.execute_tasks_h5(future_queue=q, cache_directory=d, execute_function=launcher, resource_dict=dict(exec_rd),
                                 terminate_function=None)
        finally:
            shutil.rmtree(d, ignore_errors=True)
        out.append(started)
    print("KEYS " + json.dumps(out))


def cross_process_keys(seeds=("1", "2", "3")):
    """C09 'in a new Python process': the key of one and the same call must not depend on the interpreter that computes it
    (string hash randomisation, set / dict iteration order)"""
    import json
    import subprocess
    outs = {}
    for sd in seeds:
        env = dict(os.environ, PYTHONHASHSEED=sd)
        env["PYTHONPATH"] = os.pathsep.join([env.get("PYTHONPATH", ""), os.path.dirname(os.path.abspath(__file__))])
        p = subprocess.run([sys.executable, "-c", "import C08; C08.probe_main()"], env=env, capture_output=True, text=True, timeout=120)
        line = [l for l in p.stdout.split("\n") if l.startswith("KEYS ")]
        if p.returncode != 0 or not line:
            return [{"why": "key probe in a fresh interpreter failed: %s" % (p.stderr[-400:],), "tie": True}]
        outs[sd] = json.loads(line[0][5:])
    ref = outs[seeds[0]]
    for sd in seeds[1:]:
        for k, (a, b) in enumerate(zip(ref, outs[sd])):
            if a != b:
                return [{"why": "the cache key of one and the same call differs between two Python processes (PYTHONHASHSEED=%s: %r, "
                                "PYTHONHASHSEED=%s: %r; probe call %d): a new process would execute the call again" % (seeds[0], a, sd, b, k)}]
    return []


def extra(res, hits):
    rng = res.rng
    fails = []
    sys.path.insert(0, os.path.join(core.ROOT, "translator"))
    import regex_tie
    why = regex_tie.check(core.REPO)
    n = 300 if res.tier == "quick" else 3000
    if why:
        fails.append({"why": "the normaliser in the source is not the one Model/Blank.v models: " + why, "tie": True})
    else:
        strs = ["".join(rng.choice(TOKENS) for _ in range(rng.randint(0, 7))) for _ in range(n)]
        strs += ["/ipykernel_12/", "/ipykernel_/", "/ipykernel_1", "/ipykernel_12/ipykernel_3/x", "a/ipykernel_007/b/ipykernel_1/c"]
        outs = core.eval_strings(["Base.Show", "Model.Blank"],
                                 ["hex (show_bytes (blank (list_ascii_of_string %s)))" % core.coq_str(s) for s in strs], "C08_blank")
        bad = [(s, o) for s, o in zip(strs, outs) if o != re.sub(b"(?<=/ipykernel_)([0-9]+)(?=/)", b"", s.encode()).hex()]
        res.cov["normaliser_diff_cases"] = len(strs)
        if bad:
            fails.append({"why": "Model/Blank.v disagrees with re.sub on %r: %r" % bad[0], "tie": True})
    kf, fa = key_pair_fails(rng, n)
    fails += kf
    fails += keygen_diff(res, rng, n // 3)
    fails += file_mode_keys(rng, 40 if res.tier == "quick" else 300)
    res.cov["file_mode_key_cases"] = 40 if res.tier == "quick" else 300
    ser = importlib.import_module("executorlib.standalone.serialize")
    res.cov["key_pair_cases"] = n
    # D9: what the interactive cache hashes does not contain the call's resources
    import inspect
    sh = importlib.import_module("executorlib.interactive.shared")
    src = inspect.getsource(sh._execute_task_with_cache)
    td1 = {"fn": fa, "args": [1], "kwargs": {}}                     # as the worker thread sees a call (resource_dict popped)
    k1 = ser.serialize_funct_h5(fn=td1["fn"], fn_args=td1["args"], fn_kwargs=td1["kwargs"], resource_dict=td1.get("resource_dict", {}))[0]
    if 'task_dict.get("resource_dict", {})' in src and k1 == ser.serialize_funct_h5(fa, [1], {}, {})[0]:
        hits["D9"] = hits.get("D9", 0) + 1
    return fails


def run(res):
    cachefile.cache_check(res, "C08", CONE, extra=extra, n_file=(0, 0), n_cache=(60, 600), gen=["Serialize", "CacheRes", "CacheKey"])


def replay(path):
    return cachefile.replay_case(path)
