"""Shared by C17/C18: request-sequence generator, drivers of the real backend mains
(in-process, socket functions replaced), renderers for the Coq side."""
import copy
import importlib
import sys
import types
from unittest import mock

from core import Obj, pyval, show

FUN_IDS = {}


def echo(a=None, b=None, c=None):
    return [a, b, c]


def boom(a=None):
    raise ValueError("boom")


def rankecho(a=None):
    from mpi4py import MPI
    return [a, MPI.COMM_WORLD.Get_rank()]


def retnone(a=None):
    return None


def mk_preset(kind, i):
    if kind == "preset":
        def f():
            return {"b": i}
    elif kind == "preset2":
        def f():
            return {"a": i, "zz": 1}
    else:
        def f():
            raise RuntimeError("bad init")
    return f


def py_fn(desc):
    kind, i = desc
    return {"echo": echo, "boom": boom, "rankecho": rankecho, "retnone": retnone}.get(kind) or mk_preset(kind, i)


def gen_request(rng, marker, parallel=False, allow_badinit=False):
    """logical request description"""
    k = rng.random()
    if k < 0.12:
        return ("shutdown", rng.choice([True, False]))
    if k < 0.30:
        kind = rng.choice(["preset", "preset", "preset2"] + (["badinit"] if allow_badinit and rng.random() < 0.2 else []))
        return ("init", (kind, rng.randint(1, 9)))
    if k < 0.36:
        return ("junk",)
    fn = rng.choice(["echo", "echo", "echo", "boom", "retnone"] + (["rankecho"] * 3 if parallel else []))
    names = {"echo": ["a", "b", "c"], "boom": ["a"], "rankecho": ["a"], "retnone": ["a"]}[fn]
    npos = rng.randint(0, len(names)) if fn == "echo" else rng.randint(0, 1)
    pos = [marker * 10 + j for j in range(npos)]
    rest = names[npos:]
    kw = {n: marker * 10 + 5 + j for j, n in enumerate(rest) if rng.random() < 0.4}
    return ("call", (fn, 0), pos, kw, rng.choice([True, False]))


def gen_sequence(rng, parallel=False, allow_badinit=False):
    n = rng.choice([0, 1, 2, 3, 4, 5, 6, 8])
    seq = [gen_request(rng, m + 1, parallel, allow_badinit) for m in range(n)]
    if rng.random() < 0.5:
        seq.append(("shutdown", True))
        if rng.random() < 0.3:
            seq.append(gen_request(rng, 99, parallel))
    return seq


def to_real(req):
    if req[0] == "shutdown":
        return {"shutdown": True, "wait": req[1]}
    if req[0] == "init":
        return {"init": True, "fn": py_fn(req[1]), "args": (), "kwargs": {}}
    if req[0] == "junk":
        return {"ping": 1}
    _, fn, pos, kw, tup = req
    return {"fn": py_fn(fn), "args": tuple(pos) if tup else list(pos), "kwargs": dict(kw)}


def to_coq(req):
    if req[0] == "shutdown":
        return pyval({"shutdown": True, "wait": req[1]})
    if req[0] == "init":
        return pyval({"init": True, "fn": Obj(*req[1]), "args": (), "kwargs": {}})
    if req[0] == "junk":
        return pyval({"ping": 1})
    _, fn, pos, kw, tup = req
    return pyval({"fn": Obj(*fn), "args": tuple(pos) if tup else list(pos), "kwargs": dict(kw)})


def canon_reply(d):
    if "error" in d:
        return {"error": type(d["error"]).__name__, "error_type": d["error_type"]}
    return {"result": d["result"]}


class Done(Exception):
    pass


def drive_serial(reqs):
    ws = importlib.import_module("executorlib.backend.interactive_serial")
    sent = []
    it = iter([to_real(r) for r in reqs])

    def recv(socket):
        try:
            return next(it)
        except StopIteration:
            raise Done()

    with mock.patch.object(ws, "interface_connect", lambda host, port: (None, None)), \
            mock.patch.object(ws, "interface_receive", recv), \
            mock.patch.object(ws, "interface_send", lambda socket, result_dict: sent.append(result_dict)), \
            mock.patch.object(ws, "interface_shutdown", lambda socket, context: None):
        try:
            ws.main(argument_lst=["x", "--zmqport", "1"])
            exited = True
        except Done:
            exited = False
        except Exception as ex:  # noqa
            return "Err " + type(ex).__name__, sent, None
    reps = [canon_reply(d) for d in sent]
    return "Ok " + show(reps) + " | " + show(exited), reps, exited


def drive_parallel(reqs, n):
    wp = importlib.import_module("executorlib.backend.interactive_parallel")
    from mpi4py import MPI
    sent = []
    it = iter([to_real(r) for r in reqs])
    state = {"done": False}

    def recv(socket):
        try:
            return next(it)
        except StopIteration:
            state["done"] = True
            raise Done()

    fake_sys = types.SimpleNamespace(argv=["x", "--zmqport", "1"], path=list(sys.path))
    with mock.patch.object(wp, "interface_connect", lambda host, port: (None, None)), \
            mock.patch.object(wp, "interface_receive", recv), \
            mock.patch.object(wp, "interface_send", lambda socket, result_dict: sent.append(result_dict)), \
            mock.patch.object(wp, "interface_shutdown", lambda socket, context: None), \
            mock.patch.object(wp, "sys", fake_sys):
        errs, alive = MPI.launch(n, wp.main)
    reps = [canon_reply(d) for d in sent]
    if any(alive):
        return "HANG", reps, None
    real = [e for e in errs if e is not None and not isinstance(e, Done) and type(e).__name__ != "BrokenBarrierError"]
    if real:
        return "Err " + type(real[0]).__name__, reps, None
    exited = not state["done"]
    return "Ok " + show(reps) + " | " + show(exited), reps, exited


RUN_SHOW = ("match %s with Ok (reps, ex) => \"Ok \" ++ show (VList reps) ++ \" | \" ++ show (VBool ex) "
            "| Err e => \"Err \" ++ e end")

APPLY = ("(fun mem req => '(f, a, k) <- call_funct (names_of (match py_getitem req (VStr \"fn\") with Ok f => f | _ => VNone end)) "
         "req VNone mem ;; pos <- py_iter a ;; interp %s f pos k)")


def oracle_sequence(reqs, reps, exited, n=1):
    """C17/C18 stated directly on the observed replies (independent of the Coq model)"""
    served = []
    for r in reqs:
        served.append(r)
        if r[0] == "shutdown":
            break
    bearing = [r for r in served if r[0] in ("call", "shutdown")]
    if len(reps) != len(bearing):
        return "%d replies for %d reply-bearing requests served" % (len(reps), len(bearing))
    if exited != any(r[0] == "shutdown" for r in reqs):
        return "worker exit flag %r does not match presence of a shutdown request" % exited
    # the presets in force at each reply-bearing request: the dictionary returned by the LAST init request before it
    mem_at, mem = {}, {}
    for idx, r in enumerate(served):
        if r[0] == "init":
            kind, i = r[1]
            mem = {"preset": {"b": i}, "preset2": {"a": i, "zz": 1}}.get(kind, mem)
        mem_at[id(r)] = dict(mem)
    for r, rep in zip(bearing, reps):
        if r[0] == "shutdown":
            if rep != {"result": True}:
                return "shutdown answered with %r" % (rep,)
            continue
        fn, pos, kw = r[1][0], r[2], r[3]
        if fn == "boom":
            if rep.get("error") != "ValueError" or rep.get("error_type") != "<class 'ValueError'>":
                return "raising call answered with %r" % (rep,)
            continue
        if "result" not in rep:
            return "succeeding call answered with %r" % (rep,)
        res = rep["result"]
        if fn == "retnone":
            want = [None] * n if n > 1 else None
            if res != want:
                return "call returning None on every rank answered with %r, expected %r" % (res, want)
            continue
        if n > 1:
            if not isinstance(res, list) or len(res) != n:
                return "multi-rank reply is not a list of %d values: %r" % (n, res)
            firsts = res
        else:
            firsts = [res]
        if fn == "echo":
            # echo(a=None, b=None, c=None) returns [a, b, c]: caller's values win, presets fill only what is left open
            names = ["a", "b", "c"]
            want = []
            for j, nm in enumerate(names):
                if j < len(pos):
                    want.append(pos[j])
                elif nm in kw:
                    want.append(kw[nm])
                else:
                    want.append(mem_at[id(r)].get(nm))
            for one in firsts:
                if one != want:
                    return "echo%r%r with presets %r answered %r, expected %r" % (tuple(pos), kw, mem_at[id(r)], one, want)
        for rank, one in enumerate(firsts):
            marker = pos[0] if pos else kw.get("a")
            if marker is not None and (not isinstance(one, list) or one[0] != marker):
                return "reply %r does not belong to the request with marker %r" % (rep, marker)
            if fn == "rankecho" and one[1] != rank:
                return "rank order violated: %r" % (res,)
    return None
