"""C19 — fail fast: an accepted configuration actually runs the call.  Proofs over the regenerated
constructor dispatch + translator differential test + a grid of real constructions run under the
deterministic simulator (accepted => the call completes and shutdown returns)."""
import importlib
import json
from unittest import mock

import core
import lockstep
from core import Multi, Obj, pyval, show, show_outcome

PID = "C19"
GEN = ["InputCheck", "ConfigInter", "ConfigFile", "ConfigTop", "BaseExec", "SharedRes"]
CONE = ["Base/Dec.v", "Base/PyLib.v", "Base/Tac.v", "Proofs/DictFacts.v", "Proofs/C19Proofs.v", "Proofs/C10Proofs.v", "Proofs/Refute.v"]
IMPORTS = ["Base.Dec", "Base.PyLib", "Base.Show", "Gen.InputCheck", "Gen.ConfigInter", "Gen.ConfigFile", "Gen.ConfigTop", "Gen.BaseExec"]
BACKENDS = ["local", "local", "local", "slurm_allocation", "flux_allocation", "slurm_submission", "flux_submission", "bogus"]
PARAMS = ["max_workers", "backend", "cache_directory", "max_cores", "resource_dict", "flux_executor", "flux_executor_pmi_mode",
          "flux_executor_nesting", "pysqa_config_directory", "hostname_localhost", "block_allocation", "init_function",
          "disable_dependencies", "refresh_rate", "plot_dependency_graph"]
DEFAULTS = dict(max_workers=None, backend="local", cache_directory=None, max_cores=None, resource_dict=None, flux_executor=None,
                flux_executor_pmi_mode=None, flux_executor_nesting=False, pysqa_config_directory=None, hostname_localhost=None,
                block_allocation=False, init_function=None, disable_dependencies=False, refresh_rate=0.01,
                plot_dependency_graph=False)


def gen_config(rng, wild=True):
    c = {}
    c["backend"] = rng.choice(BACKENDS)
    c["block_allocation"] = rng.random() < 0.5
    c["disable_dependencies"] = rng.random() < 0.5
    if rng.random() < 0.7:
        c["max_workers"] = rng.choice([0, 1, 1, 2, 3])
    if rng.random() < 0.5:
        c["max_cores"] = rng.choice([0, 1, 2, 2, 4])
    if rng.random() < 0.5:
        rd = {}
        if rng.random() < 0.6:
            rd["cores"] = rng.choice([1, 1, 2, 3])
        if rng.random() < 0.3:
            rd["threads_per_core"] = rng.choice([1, 2])
        if rng.random() < 0.2:
            rd["gpus_per_core"] = rng.choice([0, 1])
        if rng.random() < 0.2:
            rd["cwd"] = rng.choice([None, "/tmp"])
        if rng.random() < 0.15:
            rd["openmpi_oversubscribe"] = True
        if rng.random() < 0.15:
            rd["slurm_cmd_args"] = ["-p", "x"]
        c["resource_dict"] = rd
    if wild:
        if rng.random() < 0.15:
            c["init_function"] = Obj("fn", 1)
        if rng.random() < 0.1:
            c["hostname_localhost"] = rng.choice([True, False])
        if rng.random() < 0.1:
            c["flux_executor"] = Obj("flux", 1)
        if rng.random() < 0.1:
            c["flux_executor_pmi_mode"] = rng.choice(["pmix", "bad"])
        if rng.random() < 0.05:
            c["flux_executor_nesting"] = True
        if rng.random() < 0.1:
            c["pysqa_config_directory"] = "/cfg"
        if rng.random() < 0.1:
            c["refresh_rate"] = 0.5
        if rng.random() < 0.05:
            c["plot_dependency_graph"] = True
        if rng.random() < 0.1:
            c["cache_directory"] = "/tmp/cache_x"
    return c


class Recorder:
    def __init__(self, name):
        self.name = name

    def __call__(self, *args, **kwargs):
        if args:
            raise TypeError("positional arguments to %s" % self.name)
        kw = {}
        for k, v in kwargs.items():
            kw[k] = getattr(v, "__name__", v) if isinstance(v, type) else v
        return (self.name, kw)


def real_new(cfg):
    import executorlib
    ie = importlib.import_module("executorlib.interactive.executor")
    ce = importlib.import_module("executorlib.cache.executor")
    ic = importlib.import_module("executorlib.standalone.inputcheck")
    full = dict(DEFAULTS)
    full.update(cfg)
    rd = full["resource_dict"]
    if rd is not None:
        rd = json.loads(json.dumps(rd))
        full["resource_dict"] = rd

    class Flux:
        pass
    Flux.__name__ = "FluxPythonSpawner"
    with mock.patch.object(ie, "InteractiveExecutor", Recorder("InteractiveExecutor")), \
            mock.patch.object(ie, "InteractiveStepExecutor", Recorder("InteractiveStepExecutor")), \
            mock.patch.object(ie, "FluxPythonSpawner", Flux, create=True), \
            mock.patch.object(ce, "FileExecutor", Recorder("FileExecutor")), \
            mock.patch.object(executorlib, "_ExecutorWithDependencies", Recorder("_ExecutorWithDependencies")), \
            mock.patch.object(ic.multiprocessing, "cpu_count", lambda: 8):
        return executorlib.Executor(**full)


def coq_new(cfg):
    full = dict(DEFAULTS)
    full.update(cfg)
    args = []
    for p in PARAMS:
        v = full[p]
        if p == "refresh_rate":
            args.append("(VObj \"float\" 0)")
        else:
            args.append(pyval(v))
    rr = pyval(full["refresh_rate"] != 0.01)
    return ("match Executor_new %s (VInt 8) VNone %s with Ok (r, _) => \"Ok \" ++ show r | Err e => \"Err \" ++ e end"
            % (rr, " ".join(args)))


# ------------------------------------------------------------------ triggers of the listed findings
def eff_cores(cfg):
    rd = cfg.get("resource_dict") or {}
    return rd.get("cores", 1)


def trigger(cfg, call_res):
    be = cfg.get("backend", "local")
    rd = dict(cfg.get("resource_dict") or {})
    if be.endswith("_submission"):
        return "D19"
    block = cfg.get("block_allocation", False)
    mw, mc = cfg.get("max_workers"), cfg.get("max_cores")
    cores = rd.get("cores", 1)
    if block:
        if mw == 0 or (mw is None and mc is not None and cores and int(mc / cores) == 0):
            return "D14a"
        return None
    ccores = call_res.get("cores")
    if (not cfg.get("disable_dependencies", False)) and ccores is not None and mc is not None and ccores > mc:
        return None        # ExecutorWithDependencies carries _max_cores: submit() has to refuse this request
    if ccores is None or (ccores == 1 and cores >= 1):
        ccores = cores
    slots = ccores * call_res.get("threads_per_core", rd.get("threads_per_core", 1) if be != "local" else 1)
    if mc is not None and slots > mc:
        return "D14c"
    if mc is None and mw is not None and mw < 1:
        return "D14c"
    unknown = [k for k in call_res if k not in ("cores", "threads_per_core", "cwd", "openmpi_oversubscribe")]
    if be == "local" and unknown:
        return "D14d"
    if be == "slurm_allocation" and [k for k in call_res if k not in ("cores", "threads_per_core", "gpus_per_core", "cwd",
                                                                       "openmpi_oversubscribe", "slurm_cmd_args")]:
        return "D14d"
    return None


def build_cases(res):
    rng = res.rng
    n = 400 if res.tier == "quick" else 4000
    cases = []
    for _ in range(n):
        cfg = gen_config(rng)
        py = show_outcome(lambda: real_new(cfg))
        cases.append(("Executor.__new__", {k: (repr(v) if isinstance(v, Obj) else v) for k, v in cfg.items()}, coq_new(cfg), py, None))
    be_mod = importlib.import_module("executorlib.base.executor")
    for _ in range(n // 2):
        mc = rng.choice([None, 0, 1, 2, 4])
        rd = rng.choice([{}, {"cores": rng.randint(0, 5)}, {"cores": rng.randint(0, 5), "cwd": "/x"}, {"threads_per_core": 2}])

        def call_submit():
            ex = be_mod.ExecutorBase.__new__(be_mod.ExecutorBase)
            ex._max_cores = mc
            ex._future_queue = type("Q", (), {"put": lambda self, item: None})()
            ex.submit(len, [1], resource_dict=dict(rd))
            return (dict(rd),)

        py = show_outcome(call_submit)
        verdict = None
        if mc is not None and rd.get("cores") is not None and rd["cores"] > mc and not py.startswith("Err"):
            verdict = "submit accepted cores=%r on an executor limited to %r cores" % (rd.get("cores"), mc)
        cases.append(("ExecutorBase.submit (cores check)", dict(max_cores=mc, call=rd),
                      "show_res (submit_cores_check %s %s)" % (pyval({"_max_cores": mc}), pyval(rd)), py, verdict))
    # ---------------- accepted configurations actually run (real code under the simulator)
    m = 60 if res.tier == "quick" else 600
    sims, metas = [], []
    for _ in range(m):
        cfg = gen_config(rng, wild=False)
        if cfg["backend"] in ("flux_allocation", "bogus"):
            cfg["backend"] = "local"
        call_res = rng.choice([{}, {}, {"cores": 2}, {"threads_per_core": 2}, {"cores": 1}, {"gpus_per_core": 1}, {"nonsense": 1}])
        if cfg.get("block_allocation") and not cfg.get("disable_dependencies"):
            pass
        case = {"mode": "exec", "kwargs": cfg, "calls": [{"res": call_res}],
                "ops": [["submit", 1], ["result", 1], ["shutdown", True, False]],
                "schedule": lockstep.gen_schedule(rng, 800), "step_limit": 800, "stall_timeout": 3}
        sims.append(case)
        metas.append((cfg, call_res))
    # one fixed witness per listed finding so that each is reproduced on every run
    for cfg, call_res in [(dict(max_cores=0), {"cores": 1}), (dict(max_cores=1), {"cores": 2}),
                          (dict(max_workers=0, block_allocation=True, disable_dependencies=True), {}),
                          (dict(max_cores=1, disable_dependencies=True, resource_dict={"cores": 2}), {}),
                          (dict(max_cores=2, disable_dependencies=True), {"gpus_per_core": 1}),
                          (dict(backend="slurm_submission"), {})]:
        sims.append({"mode": "exec", "kwargs": cfg, "calls": [{"res": call_res}],
                     "ops": [["submit", 1], ["result", 1], ["shutdown", True, False]], "schedule": [], "step_limit": 800,
                     "stall_timeout": 3})
        metas.append((cfg, call_res))
    results = lockstep.run_cases(sims)
    findings = {f["id"]: f for f in core.load_findings()["open"] if f["property"] == PID}
    hits = {}
    for (cfg, call_res), r in zip(metas, results):
        outs = r.get("outcomes", [])
        verdict = None
        status = "?"
        if r["verdict"] == "harness-error" or not outs:
            verdict = "harness error %s" % (r.get("error") or "")[-300:]
        elif outs[0][-1] != "ok":
            status = "rejected at construction: " + outs[0][-1]
        elif len(outs) > 1 and outs[1][0] == "submit" and outs[1][-1] != "ok":
            status = "rejected at submit: " + outs[1][-1]
        else:
            ran = any(o[0] == "result" and str(o[-1]).startswith("res:") for o in outs)
            shut = any(o[0] == "shutdown" and o[-1] == "ok" for o in outs)
            if ran and shut and r["verdict"] == "done":
                status = "accepted and ran"
            else:
                t = trigger(cfg, call_res)
                why = "accepted, but the call never completes (%s; threads %r; parked %r)" % (
                    r["verdict"], {k: v for k, v in r.get("ents", {}).items() if k != "M"}, r.get("parked"))
                if t and t in findings:
                    hits[t] = hits.get(t, 0) + 1
                    status = "known finding " + t
                else:
                    verdict = why
        cases.append(("Executor(...) + submit + shutdown under simulator", dict(config=cfg, call=call_res), None, "Ok " + show(status), verdict))
    for t, cnt in sorted(hits.items()):
        res.known.append("id=%s %s (reproduced on %d explored configurations)" % (t, findings[t]["what"], cnt))
    return cases


def run(res):
    core.standard_run(res, PID, CONE, GEN, IMPORTS, build_cases,
                      rule=("seeded configurations over backend x block_allocation x disable_dependencies x max_workers x max_cores x "
                            "executor-level resource_dict x init_function x hostname_localhost x flux/pysqa options x refresh_rate x "
                            "plot_dependency_graph: (a) real Executor.__new__ with the executor classes replaced by recorders vs the "
                            "regenerated Gallina dispatch (vm_compute); (b) real construction + one call (with a per-call dictionary) + "
                            "shutdown under the deterministic simulator: rejected, or ran, or matched against a listed finding; "
                            "distinct = distinct configurations"),
                      assumptions=["flux and pysqa are not installed: flux_allocation constructions end in NameError (a rejection), "
                                   "*_submission backends fall back to the subprocess launcher",
                                   "mpi4py stand-in importable (cores > 1 choose the parallel script)",
                                   "translator + PyLib (differentially tested each run)"])


def replay(path):
    r = json.load(open(path))["replay"]
    print(json.dumps(r, indent=1)[:3000])
    return 0
