"""Shared by the checks of the concurrent properties (C01 C02 C03 C04 C05 C06 C07 C11 C12): lockstep
correspondence between the hand-written models (Model/Exec.v, StepExec.v, DepExec.v) and the real
code under the deterministic simulator, plus property oracles evaluated on the implementation runs."""
import json
import os

import core
import lockstep

IMPORTS = ["Base.Dec", "Model.Exec", "Model.ExecShow", "Model.StepExec", "Model.StepShow", "Model.DepExec", "Model.DepShow",
           "Model.FileExec", "Model.FileShow", "Model.CacheExec", "Model.CacheShow"]
MODEL_VO = ["theories/Model/DepShow.vo", "theories/Model/FileShow.vo", "theories/Model/CacheShow.vo"]
KINDS = {
    "block": (lockstep.gen_block_case, lockstep.coq_expr, lockstep.impl_lines, 800),
    "step": (lockstep.gen_step_case, lockstep.coq_expr_x, lockstep.impl_lines_x, 3000),
    "dep": (lockstep.gen_dep_case, lockstep.coq_expr_d, lockstep.impl_lines_d, 4000),
    "cblock": (lockstep.gen_cblock_case, lockstep.coq_expr_cc, lockstep.impl_lines_cc, 1500),
    "cstep": (lockstep.gen_cstep_case, lockstep.coq_expr_cx, lockstep.impl_lines_cx, 4000),
    "fexec": (lockstep.gen_fexec_case, lockstep.coq_expr_fs, lockstep.impl_lines_fs, 3000),
    "ublock": (lockstep.gen_ublock_case, lockstep.coq_expr, lockstep.impl_lines, 800),
    "cblockd": (lockstep.gen_cblockd_case, lockstep.coq_expr_cc, lockstep.impl_lines_cc, 1500),
}


# ------------------------------------------------------------------ systematic schedules
# Fixed small programs per kind.  Each is first run under the canonical schedule (always the first enabled
# entity); then under every schedule that follows the canonical run up to some step, takes another enabled
# entity there, and continues canonically ("one preemption anywhere").  Independent of VERIF_SEED.
_OK = {"raises": False}
CANON = {
    "block": [
        {"mode": "block", "workers": 2, "calls": [dict(_OK), dict(_OK)],
         "ops": [["submit", 1], ["submit", 2], ["cancel", 2], ["result", 1], ["shutdown", True, False]]},
        {"mode": "block", "workers": 1, "calls": [dict(_OK), dict(_OK)],
         "ops": [["submit", 1], ["submit", 2], ["shutdown", False, True]]},
        {"mode": "block", "workers": 2, "calls": [dict(_OK), dict(_OK), dict(_OK)],
         "ops": [["submit", 1], ["submit", 2], ["submit", 3], ["shutdown", True, True], ["shutdown", True, False]]},
    ],
    "step": [
        {"mode": "step", "max_cores": 2, "executor_kwargs": {},
         "calls": [{"raises": False, "res": {"cores": 2}}, {"raises": False, "res": {}}, {"raises": False, "res": {}}],
         "ops": [["submit", 1], ["submit", 2], ["submit", 3], ["cancel", 3], ["shutdown", True, False]]},
        {"mode": "step", "max_workers": 1, "executor_kwargs": {},
         "calls": [{"raises": False, "res": {}}, {"raises": False, "res": {}}],
         "ops": [["submit", 1], ["submit", 2], ["result", 2], ["shutdown", False, False]]},
    ],
    "dep": [
        {"mode": "dep-block", "max_workers": 1, "calls": [dict(_OK), {"raises": False, "deps": [1]}, {"raises": False, "deps": [1, 2], "nest": 2}],
         "ops": [["submit", 1], ["submit", 2], ["submit", 3], ["result", 3], ["shutdown", True, False]]},
        {"mode": "dep-step", "max_cores": 2, "calls": [{"raises": False, "res": {}}, {"raises": False, "deps": [1], "res": {}}],
         "ops": [["submit", 1], ["submit", 2], ["cancel", 2], ["shutdown", True, False]]},
        {"mode": "dep-block", "max_workers": 2, "calls": [dict(_OK), {"raises": False, "deps": [1, 1], "nest": True}],
         "ops": [["submit", 1], ["submit", 2], ["shutdown", False, False]]},
    ],
    "cblock": [
        {"mode": "block", "workers": 2, "cache": True, "calls": [dict(_OK), dict(_OK)],
         "ops": [["submit", 1], ["submit", 2], ["cancel", 2], ["result", 1], ["shutdown", True, False]]},
    ],
    "cblockd": [
        {"mode": "block", "workers": 2, "cache": True, "calls": [dict(_OK), {"raises": False, "same_as": 1}],
         "ops": [["submit", 1], ["result", 1], ["submit", 2], ["result", 2], ["shutdown", True, False]]},
    ],
    "cstep": [
        {"mode": "step", "max_cores": 2, "executor_kwargs": {}, "cache": True,
         "calls": [{"raises": False, "res": {}}, {"raises": False, "res": {}}],
         "ops": [["submit", 1], ["submit", 2], ["result", 1], ["shutdown", True, False]]},
    ],
    "fexec": [
        {"mode": "file", "nocancel": True, "calls": [{"args": [1], "deps": []}, {"args": [2], "deps": [1]}],
         "ops": [["submit", 1], ["submit", 2], ["result", 2], ["shutdown", True, False]]},
        {"mode": "file", "nocancel": True, "calls": [{"args": [1], "deps": []}, {"args": [1], "deps": [], "same_as": 1}],
         "ops": [["submit", 1], ["result", 1], ["submit", 2], ["result", 2], ["exit"]]},
    ],
}


def systematic(kinds, per_kind=None, stride=1, offset=0):
    """returns list of (kind, case) with explicit schedules: the canonical runs and their single deviations
    (all of them for stride=1; every stride-th one, starting at offset, otherwise)"""
    import copy
    bases = []
    for kind in kinds:
        progs = CANON.get(kind, [])
        for prog in (progs if per_kind is None else progs[:per_kind]):
            lim = KINDS[kind][3]
            c = copy.deepcopy(prog)
            c["schedule"] = [0] * lim
            c["step_limit"] = lim
            c["systematic"] = "canonical"
            bases.append((kind, c))
    results = lockstep.run_cases([c for _, c in bases])
    out = []
    ndev = 0
    for (kind, c), r in zip(bases, results):
        out.append((kind, c))
        idx = []
        lim = c["step_limit"]
        for i, (en, pick, lab) in enumerate(r.get("trace", [])):
            if pick not in en:
                break
            k = en.index(pick)
            # a fruitless poll (empty get_nowait, sleep) leaves the state as it was: deviating there repeats the
            # deviations of the step before
            poll = (lab[0] == "getnw" and lab[-1] == "E") or lab[0] == "sleep"
            for j in range(len(en)):
                if j != k and not poll:
                    ndev += 1
                    if (ndev + offset) % stride:
                        continue
                    d = copy.deepcopy(c)
                    d["schedule"] = idx + [j] + [0] * (lim - i - 1)
                    d["systematic"] = "step %d: %s instead of %s" % (i, en[j], pick)
                    out.append((kind, d))
            idx.append(k)
    return out


def has_fail(case):
    return any(c.get("raises") for c in case.get("calls", [])) or bool(case.get("iofault_fired"))


def explore(res, kinds, n_per_kind, allow_fail=True, extra_cases=None):
    """returns (runs, divergences) where runs = list of (kind, case, result)"""
    rng = res.rng
    cases = []
    for kind in kinds:
        gen = KINDS[kind][0]
        for _ in range(n_per_kind):
            c = gen(rng, allow_fail=allow_fail)
            c["schedule"] = lockstep.gen_schedule(rng, KINDS[kind][3])
            c["step_limit"] = KINDS[kind][3]
            cases.append((kind, c))
    for kind, c in (extra_cases or []):
        cases.append((kind, c))
    results = lockstep.run_cases([c for _, c in cases])
    runs = [(k, c, r) for (k, c), r in zip(cases, results)]
    for k, c, r in runs:
        if c.get("iofault") and any(t[2][0] == "iofault" for t in r.get("trace", [])):
            c["iofault_fired"] = True
    return runs


def lockstep_compare(runs):
    """model vs implementation on the runs; returns (compared, divergences)"""
    # runs with an injected I/O fault are judged by the oracles only (the model has no such fault)
    ok = [(k, c, r) for k, c, r in runs if r["verdict"] in ("done", "deadlock", "quiescent") and not c.get("iofault_fired")]
    exprs = [KINDS[k][1](c, r) for k, c, r in ok]
    outs = core.eval_strings(IMPORTS, exprs, "lockstep", shard=120)
    div = []
    for (k, c, r), o in zip(ok, outs):
        il = KINDS[k][2](c, r)
        cut = lockstep.cut_at_reraise(r) if k not in ("block", "cblock") else None
        if k in ("cblock", "cblockd"):
            d = lockstep.compare_lines(il, o, None)       # Model/CacheExec.v: every point compared, cache operations included
        elif k == "fexec":
            d = lockstep.compare_lines(il, o, None)
        elif k == "cstep":
            d = lockstep.compare_noen_lines(il, o, lockstep.cut_at_reraise(lockstep.project_fs(r)))
        else:
            d = lockstep.compare_lines(il, o, cut) if k != "block" else lockstep.compare(c, r, o)
        if d:
            div.append({"kind": k, "case": strip(c), "schedule": c.get("schedule", [])[:len(r["trace"])], "divergence": d})
    harness = [{"kind": k, "case": strip(c), "verdict": r["verdict"], "error": (r.get("error") or "")[-800:]}
               for k, c, r in runs if r["verdict"] not in ("done", "deadlock", "quiescent", "steplimit")]
    return len(ok), div, harness


def strip(case):
    return {k: v for k, v in case.items() if k != "schedule"} | {"schedule_len": len(case.get("schedule", []))}


def trace_stats(runs):
    labels = {}
    verdicts = {}
    steps = 0
    for k, c, r in runs:
        verdicts[r["verdict"]] = verdicts.get(r["verdict"], 0) + 1
        for en, pick, lab in r.get("trace", []):
            steps += 1
            labels[lab[0]] = labels.get(lab[0], 0) + 1
    distinct = len({json.dumps(r.get("trace")) for _, _, r in runs})
    return {"verdicts": verdicts, "steps": steps, "label_histogram": labels, "distinct_traces": distinct}


def concurrent_check(res, pid, cone, kinds, n_quick, n_thorough, oracle, known, rule, assumptions, allow_fail=True,
                     props_ready=True):
    """oracle(kind, case, result) -> None | str ; known(kind, case, result, why) -> finding id | None"""
    n = n_quick if res.tier == "quick" else n_thorough
    with core.Lock():
        gate = core.grep_gate()
        status = core.regen()
        pr = core.proof_stage(res, pid, cone, [], status) if props_ready else {"ok": True, "broken": []}
        if gate:
            pr["ok"] = False
            pr["broken"].append({"kind": "gate", "error": gate})
        ok, log = core.make(MODEL_VO)
        if not ok:
            pr["ok"] = False
            pr["broken"].append({"kind": "model-compile", "error": core.first_error(log)})
        corpus = []
        cdir = os.path.join(core.ROOT, "corpus")
        for fn in sorted(os.listdir(cdir)) if os.path.isdir(cdir) else []:
            if fn.startswith(pid + "_") and fn.endswith(".json"):
                w = json.load(open(os.path.join(cdir, fn)))
                corpus.append((w["kind"], w["case"]))
        directed = []
        if "cblock" in kinds:
            # the cache write of a finished call fails at each of its HDF5 operations in turn
            for k in range(1, 7):
                for ops in ([["submit", 1], ["shutdown", True, False]], [["submit", 1], ["submit", 2], ["exit"]]):
                    c = {"mode": "block", "workers": 1 if len(ops) == 2 else 2, "cache": True, "iofault": k,
                         "calls": [{"raises": False}, {"raises": False}][:len(ops) - 1], "ops": ops,
                         "schedule": lockstep.gen_schedule(res.rng, 600), "step_limit": 1500}
                    directed.append(("cblock", c))
        # quick: the first program of each kind, every 3rd deviation (which third depends on the seed);
        # thorough: every program, every deviation
        if "dep" in kinds:
            # a finished future passed twice, followed by an independent call, on a single worker behind the resolver
            for sch in ([0] * 900, lockstep.gen_schedule(res.rng, 900), lockstep.gen_schedule(res.rng, 900)):
                directed.append(("dep", {"mode": "dep-block", "max_workers": 1,
                                         "calls": [{"raises": False}, {"raises": False, "deps": [1, 1]}, {"raises": False}],
                                         "ops": [["submit", 1], ["result", 1], ["submit", 2], ["submit", 3], ["result", 3],
                                                 ["shutdown", True, False]], "schedule": sch, "step_limit": 4000}))
        syst = systematic(kinds, per_kind=1, stride=3, offset=res.seed % 3) if res.tier == "quick" else systematic(kinds)
        runs = explore(res, kinds, n, allow_fail, extra_cases=corpus + directed + syst)
        res.cov["corpus_cases"] = len(corpus)
        res.cov["systematic_schedules"] = len(syst)
        compared, div, harness = (0, [], [])
        if ok:
            try:
                compared, div, harness = lockstep_compare(runs)
            except core.CaseEvalError as ex:
                pr["ok"] = False
                pr["broken"].append({"kind": "case-eval", "error": str(ex)[-1500:]})
    fails, known_hits = [], {}
    for k, c, r in runs:
        if r["verdict"] == "harness-stall" and pid in ("C02", "C05", "C07"):
            # a thread of the real code runs for 30 s without reaching any instrumented operation: a busy loop
            fails.append({"kind": k, "case": strip(c), "schedule": c.get("schedule", [])[:len(r.get("trace", []))],
                          "why": "a thread spins without ever reaching its next queue / future / process operation "
                                 "(busy loop); last steps %r" % ([" ".join(str(x) for x in lab) for en, pick, lab in r.get("trace", [])[-4:]],),
                          "verdict": r["verdict"], "parked": r.get("parked")})
            continue
        if r["verdict"] not in ("done", "deadlock", "quiescent", "steplimit"):
            continue
        why = oracle(k, c, r)
        if why:
            fid = known(k, c, r, why) if known else None
            if fid:
                known_hits[fid] = known_hits.get(fid, 0) + 1
            else:
                fails.append({"kind": k, "case": strip(c), "schedule": c.get("schedule", [])[:len(r["trace"])],
                              "why": why, "verdict": r["verdict"], "parked": r.get("parked")})
    st = trace_stats(runs)
    res.cov.update({"evaluations": len(runs), "distinct_nontrivial": st["distinct_traces"],
                    "traces_validated_against_impl": compared, "lockstep_divergences": len(div),
                    "oracle_failures": len(fails), "known_finding_hits": known_hits, "rule": rule,
                    "verdicts": st["verdicts"], "steps": st["steps"], "label_histogram": st["label_histogram"],
                    "harness_problems": len(harness),
                    "samples": [{"kind": k, "case": strip(c), "verdict": r["verdict"], "trace_head": r["trace"][:12]}
                                for k, c, r in runs[:2]]})
    res.assumptions = assumptions
    findings = core.load_findings()
    open_ids = {f["id"]: f for f in findings["open"] if f["property"] == pid}
    for fid, cnt in known_hits.items():
        if fid in open_ids:
            res.known.append("id=%s %s (reproduced on %d explored cases)" % (fid, open_ids[fid]["what"], cnt))
        else:
            fails.append({"why": "failure matched trigger %s which is not listed as open for %s" % (fid, pid)})
    if harness:
        pr["ok"] = False
        pr["broken"].append({"kind": "harness", "error": harness[:2]})
    tie_broken = (not pr["ok"]) or bool(div)
    if fails:
        f = min(fails, key=lambda x: len(json.dumps(x, default=str)))
        res.violation("implementation run violates the property's oracle", {
            "kind": "oracle", "case": f, "count": len(fails), "broken_tie": pr["broken"], "divergence": div[:2]})
    elif tie_broken:
        res.violation("proof or model/implementation lockstep no longer checks; no failing run found", {
            "kind": "tie", "broken": pr["broken"], "divergence": div[:3]}, found_input=False)
    return runs


def replay_case(path):
    r = json.load(open(path))["replay"]
    print(json.dumps(r, indent=1)[:4000])
    if r.get("kind") == "oracle" and "case" in r["case"]:
        case = dict(r["case"]["case"])
        case["schedule"] = r["case"].get("schedule", [])
        import runcase
        out = runcase.run_forked(case)
        print("re-run verdict:", out["verdict"], "futures:", out.get("futures"), "parked:", out.get("parked"))
    return 0
