"""C10 — per-call resources.  Proofs over the regenerated merging code, translator differential
test, and an end-to-end oracle: the real per-call executor under the simulator with a recording
Popen (argv decoded with the srun grammar of C16, cwd), caller's dictionaries and shared defaults."""
import ast
import importlib
import json
import os
import types
from unittest import mock

import core
from core import pyval, show, show_outcome

import C16  # srun decoder (independent Python port of Model/Grammar.v)
import lockstep

PID = "C10"
GEN = ["InputCheck", "SharedRes", "CacheRes", "Serialize", "CacheKey", "StepCtor"]
CONE = ["Base/Dec.v", "Base/PyLib.v", "Base/Tac.v", "Proofs/DictFacts.v", "Proofs/C10Proofs.v"]
IMPORTS = ["Base.Dec", "Base.PyLib", "Base.Show", "Gen.InputCheck", "Gen.SharedRes", "Gen.CacheRes"]
KEYS = ["cores", "threads_per_core", "gpus_per_core", "cwd", "openmpi_oversubscribe", "slurm_cmd_args"]


def gen_res(rng, allow_empty=True):
    d = {}
    if rng.random() < 0.6:
        d["cores"] = rng.choice([1, 1, 2, 3, 4])
    if rng.random() < 0.4:
        d["threads_per_core"] = rng.choice([1, 2, 4])
    if rng.random() < 0.3:
        d["gpus_per_core"] = rng.choice([0, 1, 2])
    if rng.random() < 0.4:
        d["cwd"] = rng.choice(["/tmp", "/usr", "/var/tmp", None])
    if rng.random() < 0.3:
        d["openmpi_oversubscribe"] = rng.choice([True, False])
    if rng.random() < 0.3:
        d["slurm_cmd_args"] = rng.choice([[], ["-p", "debug"], ["--mem=1G"]])
    return d


def effective(ek, rd):
    """the property, key by key: the call's value, else the executor's (cores = 1 counts as unset)"""
    eff = dict(ek)
    for k, v in rd.items():
        eff[k] = v
    if "cores" not in rd or (rd["cores"] == 1 and ek.get("cores", 1) >= 1):
        eff["cores"] = ek.get("cores", 1)
    return eff


def snippet_runner(mod, first, last):
    """the statements of the source between `first` and `last`, compiled from the real file"""
    src = open(mod.__file__).read()
    tree = ast.parse(src)
    for node in ast.walk(tree):
        for fld in ("body", "orelse"):
            seq = getattr(node, fld, None)
            if isinstance(seq, list):
                texts = [ast.unparse(x) for x in seq]
                if first in texts and last in texts:
                    i, j = texts.index(first), texts.index(last)
                    return compile(ast.Module(body=seq[i:j + 1], type_ignores=[]), mod.__file__, "exec")
    # the exact statements are gone: fall back to "from the first assignment of the merged dictionary
    # to the statement before the key is computed" so that the rewritten code is still run
    for node in ast.walk(tree):
        for fld in ("body", "orelse"):
            seq = getattr(node, fld, None)
            if isinstance(seq, list):
                tgt = first.split("=")[0].strip()
                idx = [k for k, x in enumerate(seq) if isinstance(x, ast.Assign) and ast.unparse(x.targets[0]) == tgt]
                stop = [k for k, x in enumerate(seq) if "serialize_funct_h5" in ast.unparse(x)]
                if idx and stop and idx[0] < stop[0]:
                    return compile(ast.Module(body=seq[idx[0]:stop[0]], type_ignores=[]), mod.__file__, "exec")
    raise RuntimeError("snippet not found in %s" % mod.__file__)


def build_cases(res):
    rng = res.rng
    n = 250 if res.tier == "quick" else 2500
    sh = importlib.import_module("executorlib.interactive.shared")
    cs = importlib.import_module("executorlib.cache.shared")
    cases = []
    for _ in range(n):
        ek = {"cores": rng.choice([1, 1, 2, 4]), "cwd": rng.choice([None, "/home"]), "openmpi_oversubscribe": False}
        if rng.random() < 0.5:
            ek["threads_per_core"] = rng.choice([1, 2])
        rd = gen_res(rng)
        td = {"fn": "f", "args": [], "kwargs": {}, "future": "fut1", "resource_dict": rd}
        act = {"fut0": rng.randint(1, 3)} if rng.random() < 0.5 else {}
        seen = {}

        class Rec:
            def __init__(self, target=None, kwargs=None):
                seen["kwargs"] = kwargs

            def start(self):
                pass

        ek_before = json.loads(json.dumps(ek))

        def call():
            td2 = json.loads(json.dumps(td))
            rd_obj = td2["resource_dict"]
            before = json.dumps(rd_obj)
            q = types.SimpleNamespace(put=lambda x: None)
            with mock.patch.object(sh, "RaisingThread", Rec), \
                    mock.patch.object(sh, "_wait_for_free_slots", lambda active_task_dict, cores_requested, max_cores, max_workers: dict(active_task_dict)):
                proc, act2 = sh._submit_function_to_separate_process(
                    task_dict=td2, active_task_dict=dict(act), qtask="Q", spawner="SP", executor_kwargs=ek,
                    max_cores=4, max_workers=None, hostname_localhost=None) if False else \
                    sh._submit_function_to_separate_process(td2, dict(act), types.SimpleNamespace(put=lambda x: None), "SP", ek, 4, None, None)
            kw = dict(seen["kwargs"])
            kw["future_queue"] = "Q"
            seen["rd_unchanged"] = json.dumps(rd_obj) == before
            return core.Multi(kw, act2["fut1"], act2)

        py = show_outcome(call)
        verdict = None
        if py.startswith("Ok"):
            kw = dict(seen["kwargs"])
            eff = effective(ek, rd)
            for k, v in eff.items():
                if kw.get(k) != v:
                    verdict = "effective %s is %r, the property requires %r (call %r over executor %r)" % (k, kw.get(k), v, rd, ek)
            if not seen.get("rd_unchanged", True):
                verdict = "the caller's resource_dict was modified"
        ek_after = {k: v for k, v in ek.items() if isinstance(v, (int, str, bool, type(None)))}
        if ek_after != ek_before or set(ek) != set(ek_before):
            verdict = ("submitting a call with resource_dict %r changed the executor's own keyword arguments from %r to %r: "
                       "the resources of this call leak into every later call" % (rd, ek_before, {k: repr(v)[:40] for k, v in ek.items()}))
            ek = ek_before
        coq = ("show_res3 (_submit_function_to_separate_process (fun a _ _ _ => Ok a) %s %s (VStr \"Q\") (VStr \"SP\") %s (VInt 4) VNone VNone)"
               % (pyval(td), pyval(act), pyval(ek)))
        cases.append(("_submit_function_to_separate_process", dict(executor=ek, call=rd), coq, py, verdict))
        # file mode merge (statements of execute_tasks_h5)
        rdx = {"cores": rng.choice([1, 2]), "cwd": rng.choice([None, "/x"])}
        code = snippet_runner(cs, "task_resource_dict = task_dict['resource_dict'].copy()",
                              "task_resource_dict.update({k: v for k, v in resource_dict.items() if k not in task_resource_dict})")

        def call2():
            ns = {"task_dict": json.loads(json.dumps(td)), "resource_dict": dict(rdx)}
            exec(code, ns)
            return (ns["task_resource_dict"], ns["task_dict"], ns["resource_dict"])

        py = show_outcome(call2)
        verdict = None
        if py.startswith("Ok"):
            merged, td_after, rdx_after = call2()
            exp = dict(rdx)
            exp.update(rd)
            if merged != exp:
                verdict = "file mode merges to %r, the property requires %r" % (merged, exp)
            if td_after["resource_dict"] != rd:
                verdict = ("file mode: merging the executor defaults %r modified the call's own resource_dict from %r to %r "
                           "(the object the caller passed; a dictionary shared between calls then carries one call's resources into the next)"
                           % (rdx, rd, td_after["resource_dict"]))
            if rdx_after != rdx:
                verdict = "file mode: the executor's resource defaults were modified: %r -> %r" % (rdx, rdx_after)
        cases.append(("execute_tasks_h5 (resource merge)", dict(executor=rdx, call=rd),
                      "show_res (file_mode_resources %s %s)" % (pyval(td), pyval(rdx)), py, verdict))
        # slot guards
        m = rng.randint(1, 6)
        r = rng.randint(1, 4)
        py = "Ok " + show(sum(act.values()) + r > m)
        cases.append(("_wait_for_free_slots guard (cores)", dict(active=act, request=r, max_cores=m),
                      "show_res (wait_guard_cores %s (VInt (%d)) (VInt (%d)))" % (pyval(act), r, m), py, None))
        py = "Ok " + show(len(act) + 1 > m)
        cases.append(("_wait_for_free_slots guard (workers)", dict(active=act, max_workers=m),
                      "show_res (wait_guard_workers %s (VInt (%d)))" % (pyval(act), m), py, None))
        # block allocation refuses a per-call dictionary
        ic = importlib.import_module("executorlib.standalone.inputcheck")
        py = show_outcome(lambda: (ic.check_resource_dict_is_empty(resource_dict=rd), (rd,))[1])
        verdict = None
        if rd and not py.startswith("Err"):
            verdict = "block allocation accepted a non-empty per-call resource_dict %r" % (rd,)
        cases.append(("ExecutorBroker.submit check", dict(call=rd), "show_res (broker_submit_checks %s)" % pyval(rd), py, verdict))
    # ---------------- end to end: real per-call executor under the simulator, srun launcher
    sim_cases = []
    for _ in range(30 if res.tier == "quick" else 300):
        ek = {"cores": 1, "cwd": rng.choice([None, "/home"]), "threads_per_core": 1, "gpus_per_core": 0,
              "openmpi_oversubscribe": False, "slurm_cmd_args": []}
        ncalls = rng.randint(1, 3)
        calls = [{"res": gen_res(rng)} for _ in range(ncalls)]
        c = {"mode": "step", "spawner": "srun", "max_cores": 16, "executor_kwargs": ek, "calls": calls,
             "ops": [["submit", i + 1] for i in range(ncalls)] + [["shutdown", True, False]],
             "schedule": lockstep.gen_schedule(rng, 1500), "step_limit": 1500}
        sim_cases.append(c)
    # D20: the default composition (resolver in front of a block executor) ignores a per-call dictionary
    d20 = {"mode": "dep-block", "max_workers": 1, "calls": [{"res": {"cwd": "/usr"}}],
           "ops": [["submit", 1], ["shutdown", True, False]], "schedule": [], "step_limit": 1500}
    results = lockstep.run_cases(sim_cases + [d20])
    for c, r in zip(sim_cases, results[:-1]):
        verdict = None
        if r["verdict"] != "done":
            verdict = "run ended with %s" % r["verdict"]
        else:
            pnames = sorted(r["procs"], key=lambda x: int(x[1:]))
            # which call a process served: the request its side of the socket received
            served = {}
            for en, pick, lab in r["trace"]:
                if lab[0] == "zrecv" and str(lab[1]).startswith("C") and str(lab[2]).startswith("call"):
                    served["P" + str(lab[1])[1:]] = int(str(lab[2])[4:])
            for pn in pnames:
                if pn not in served:
                    verdict = "process %s was launched but never received a call" % pn
                    continue
                k = served[pn] - 1
                rd = c["calls"][k]["res"]
                eff = effective(c["executor_kwargs"], rd)
                argv = r["procs"][pn]["argv"]
                i = next((j for j, a in enumerate(argv) if a.endswith("python") or "python" in os.path.basename(a)), None)
                d = C16.decode_srun(argv) if i is not None else None
                want = C16.norm_req(dict(cores=eff["cores"], cwd=eff["cwd"], tpc=eff["threads_per_core"],
                                         gpc=eff["gpus_per_core"], over=eff["openmpi_oversubscribe"]))
                extra = eff["slurm_cmd_args"]
                if d is None and extra:
                    # user-supplied extra arguments are not part of the grammar: cut them out, they must precede the worker
                    cut = [a for a in argv]
                    for e in extra:
                        if e in cut:
                            cut.remove(e)
                    d = C16.decode_srun(cut)
                if d is None:
                    verdict = "call %d launched with an invalid srun line %r" % (k + 1, argv)
                elif d[0] != want:
                    verdict = "call %d launched with %r, effective resources are %r" % (k + 1, d[0], want)
                elif r["procs"][pn]["cwd"] != eff["cwd"]:
                    verdict = "call %d launched in cwd %r, requested %r" % (k + 1, r["procs"][pn]["cwd"], eff["cwd"])
                elif any(e not in argv for e in extra):
                    verdict = "call %d: extra scheduler arguments %r missing from %r" % (k + 1, extra, argv)
            for i_s, d in r["passed_res"].items():
                if d != c["calls"][int(i_s) - 1]["res"]:
                    verdict = "the caller's resource_dict of call %s was changed to %r" % (i_s, d)
            if any(v != "{}" for v in r["submit_defaults"].values()):
                verdict = "a shared default resource_dict was modified: %r" % (r["submit_defaults"],)
        cases.append(("per-call executor under simulator (srun)", {k: v for k, v in c.items() if k != "schedule"}, None,
                      "Ok " + show(r["verdict"]), verdict))
    r = results[-1]
    if r["verdict"] == "done" and r["procs"] and all(p["cwd"] != "/usr" for p in r["procs"].values()) \
            and r["futures"].get("1", "").startswith("res"):
        res.known.append("id=D20 " + next((f["what"] for f in core.load_findings()["open"]
                                           if f["property"] == PID and f["id"] == "D20"), "per-call dict ignored"))
    return cases


def file_loop_scoping(rng, n):
    """file mode, the real execute_tasks_h5 run to completion with a launcher that - like execute_with_pysqa - removes entries from
    the dictionary it is given: every call must still be launched with its own effective resources, and the executor-level
    dictionary must be unchanged afterwards"""
    import importlib
    import os
    import queue
    import shutil
    import tempfile
    from concurrent.futures import Future
    csh = importlib.import_module("executorlib.cache.shared")

    def mk(i):
        def fn(x):
            return x
        fn.__name__ = "probe%d" % i
        return fn
    cases = []
    for _ in range(n):
        exec_rd = {"cores": rng.choice([1, 1, 2]), "cwd": rng.choice(["/a", "/b", None])}
        rds = [rng.choice([{}, {}, {"cwd": "/c"}, {"cores": 2}]) for _ in range(rng.randint(2, 4))]
        d = tempfile.mkdtemp(prefix="verif-c10-")
        got = []

        def launcher(command, task_dependent_lst=[], resource_dict=None, config_directory=None, backend=None, cache_directory=None, **kw):
            got.append(dict(resource_dict))
            for k in list(resource_dict):          # what a launcher may do with its own argument
                del resource_dict[k]
            return object()
        q = queue.Queue()
        for i, rd in enumerate(rds):
            q.put({"fn": mk(i), "args": (i,), "kwargs": {}, "future": Future(), "resource_dict": dict(rd)})
        q.put({"shutdown": True, "wait": True})
        passed = dict(exec_rd)
        verdict, py = None, "Ok"
        try:
            csh.execute_tasks_h5(future_queue=q, cache_directory=d, execute_function=launcher, resource_dict=passed, terminate_function=None)
        except Exception as ex:  # noqa
            py = "Err " + type(ex).__name__
        finally:
            shutil.rmtree(d, ignore_errors=True)
        if py == "Ok":
            want = []
            for rd in rds:
                m = dict(exec_rd)
                m.update(rd)
                want.append(m)
            if got != want:
                k = next((j for j in range(min(len(got), len(want))) if got[j] != want[j]), len(got))
                verdict = ("file mode: call %d of one executor (executor-level %r, per-call %r) is launched with %r, its effective "
                           "resources are %r (the launcher of an earlier call had emptied the dictionary it was given)"
                           % (k + 1, exec_rd, rds[k] if k < len(rds) else None, got[k] if k < len(got) else None,
                              want[k] if k < len(want) else None))
            elif passed != exec_rd:
                verdict = "file mode: the executor-level resource dictionary was modified: %r -> %r" % (exec_rd, passed)
        cases.append(("execute_tasks_h5 (launcher mutates its argument)", dict(executor=exec_rd, calls=rds), None, py, verdict))
    return cases


def run(res):
    def build_all(res2):
        return build_cases(res2) + file_loop_scoping(res2.rng, 25 if res2.tier == "quick" else 250)
    core.standard_run(res, PID, CONE, GEN, IMPORTS, build_all,
                      rule=("seeded executor-level and per-call resource dictionaries over cores / threads_per_core / gpus_per_core / cwd / "
                            "oversubscribe / slurm_cmd_args; (a) the real merging functions vs the regenerated Gallina definitions "
                            "(vm_compute), (b) key-by-key precedence oracle, (c) the real per-call executor with the srun launcher "
                            "under the simulator: argv decoded by the srun grammar and cwd compared with the effective resources, "
                            "caller's dictionaries and shared defaults unchanged; distinct = distinct (function, input)"),
                      assumptions=["translator ownership discipline: in-place mutation is accepted only on objects the function "
                                   "created or copied (a dropped .copy() is a translation failure)",
                                   "srun grammar of C16 (Model/Grammar.v)", "simulator (Popen replaced by a recorder)"])


def replay(path):
    r = json.load(open(path))["replay"]
    print(json.dumps(r, indent=1)[:3000])
    return 0
