"""C14 — see props/cachefile.py (operation-list tie, oracles) and DESIGN.md section 5."""
import cachefile

CONE = ["Model/CacheFs.v", "Model/FileFlow.v", "Proofs/CacheProofs.v", "Model/Exec.v", "Model/StepExec.v", "Model/FileExec.v", "Model/FileSpec.v", "Proofs/FileSafe.v", "Model/FileLiveSpec.v", "Proofs/FileLive.v", "Model/FileMeasureSpec.v", "Proofs/FileMeasure.v", "Model/CacheExec.v", "Model/CacheSpec.v", "Proofs/CacheSafe.v"]


def run(res):
    cachefile.cache_check(res, "C14", CONE)


def replay(path):
    return cachefile.replay_case(path)
