"""C17 — worker wire protocol."""
import json

import core
import wproto

PID = "C17"
GEN = ["InputCheck", "Backend", "WorkerSerial"]
CONE = ["Base/Dec.v", "Base/PyLib.v", "Base/Tac.v", "Model/Worker.v", "Proofs/C17Proofs.v"]
IMPORTS = ["Base.Dec", "Base.PyLib", "Base.Show", "Model.Worker", "Model.Interp", "Gen.InputCheck", "Gen.Backend", "Gen.WorkerSerial"]


def build_cases(res):
    rng = res.rng
    n = 400 if res.tier == "quick" else 4000
    cases = []
    for _ in range(n):
        seq = wproto.gen_sequence(rng, allow_badinit=True)
        py, reps, exited = wproto.drive_serial(seq)
        verdict = None
        if exited is not None:
            verdict = wproto.oracle_sequence(seq, reps, exited)
        elif not any(r[0] == "init" and r[1][0] == "badinit" for r in seq):
            verdict = "worker loop died with %s" % py
        coq = wproto.RUN_SHOW % ("run (wstep_serial %s) VNone [%s]" % (wproto.APPLY % "0", "; ".join(wproto.to_coq(r) for r in seq)))
        cases.append(("interactive_serial.main", seq, coq, py, verdict))
    return cases


def run(res):
    _run(res)
    import concur_props
    concur_props.real_slice(res, PID, "wire", 3, 15)


def _run(res):
    core.standard_run(res, PID, CONE, GEN, IMPORTS, build_cases,
                      rule=("seeded request sequences (length 0-10) over {init (three kinds, incl. a raising one), succeeding call, "
                            "raising call, preset-using call, shutdown, unrecognised dict}, incl. several inits, requests before any "
                            "init and requests after shutdown; the real interactive_serial.main is driven in-process with the socket "
                            "functions replaced, the regenerated loop body is iterated in Coq (vm_compute) with the regenerated "
                            "call_funct; reply sequences and exit flag compared; an independent oracle checks count/order/ownership "
                            "of replies; distinct = distinct sequences not ending in an exception"),
                      assumptions=["zmq PAIR delivers messages reliably and in order (transport not modelled)",
                                   "cloudpickle round trip of requests/replies (not modelled)",
                                   "translator + PyLib (differentially tested each run)"])


def replay(path):
    r = json.load(open(path))["replay"]
    print(json.dumps(r, indent=1)[:3000])
    if r.get("kind") != "oracle":
        return 0
    seq = [tuple(tuple(y) if isinstance(y, list) and i == 1 else y for i, y in enumerate(x)) for x in r["case"]["input"]]
    py, reps, exited = wproto.drive_serial(seq)
    print(py)
    v = wproto.oracle_sequence(seq, reps, exited) if exited is not None else py
    print("verdict:", v)
    return 1 if v else 0
