"""C20 — plot mode executes nothing and draws the submitted dependency graph.  Hand-written model
(Model/Plot.v) compared with the graph the real code hands to the (recorded) drawing library;
the real executor runs under the simulator so that 'nothing is executed' is observable."""
import json

import core
import lockstep

PID = "C20"
CONE = ["Model/Plot.v", "Proofs/PlotProofs.v", "Proofs/PlotGeneral.v"]
IMPORTS = ["Base.Dec", "Model.Plot"]


def gen_spec(rng, i, depth=0):
    r = rng.random()
    if i > 1 and r < 0.35:
        return ["f", rng.randint(1, i - 1)]
    if depth == 0 and r < 0.55:
        n = rng.randint(0, 3)
        if i > 1 and rng.random() < 0.6:
            return ["l", [["f", rng.randint(1, i - 1)] for _ in range(n)]]
        return ["l", [gen_spec(rng, i, 1) for _ in range(n)]]
    return ["v", rng.randint(0, 9)]


def gen_program(rng, allow_dups):
    n = rng.randint(1, 5)
    calls = []
    for i in range(1, n + 1):
        c = {"argspec": [gen_spec(rng, i) for _ in range(rng.randint(0, 3))],
             "kwspec": [[k, gen_spec(rng, i)] for k in rng.sample(["a", "b", "key"], rng.randint(0, 2))]}
        if allow_dups and i > 1 and rng.random() < 0.25:
            j = rng.randint(1, i - 1)
            c = {"same_as": calls[j - 1].get("same_as", j), "argspec": calls[j - 1]["argspec"], "kwspec": calls[j - 1]["kwspec"]}
        calls.append(c)
    return calls


def spec_coq(s):
    if s[0] == "v":
        return "(AVal %d)" % s[1]
    if s[0] == "f":
        return "(AFut %d)" % s[1]
    return "(AList [%s])" % "; ".join(spec_coq(x) for x in s[1])


def call_coq(i, c):
    name = "c%dx" % c.get("same_as", i)
    return "(mkPC %s [%s] [%s])" % (core.coq_str(name), "; ".join(spec_coq(x) for x in c["argspec"]),
                                    "; ".join("(%s, %s)" % (core.coq_str(k), spec_coq(v)) for k, v in c["kwspec"]))


def arg_edges(s):
    if s[0] == "l" and all(x[0] == "f" for x in s[1]):
        return len(s[1])
    return 1


def has_dup(calls):
    seen = set()
    for i, c in enumerate(calls, 1):
        key = json.dumps([c.get("same_as", i), c["argspec"], c["kwspec"]])
        if key in seen:
            return True
        seen.add(key)
    return False


def run(res):
    rng = res.rng
    n = 120 if res.tier == "quick" else 1200
    progs = [gen_program(rng, allow_dups=(k % 4 == 0)) for k in range(n)]
    progs.append([{"argspec": [["v", 1]], "kwspec": []}, {"same_as": 1, "argspec": [["v", 1]], "kwspec": []}])      # D15 witness
    # the same function called with a future and with a plain integer in the same slot (an integer that
    # happens to equal the producer's number): two different calls, two boxes
    for k in range(12 if res.tier == "quick" else 60):
        base = gen_program(rng, allow_dups=False)
        cand = [(i, a) for i, c in enumerate(base, 1) for a, sp in enumerate(c["argspec"]) if sp[0] == "f"]
        if not cand:
            base = [{"argspec": [["v", 1]], "kwspec": []}, {"argspec": [["v", 1], ["f", 1]], "kwspec": []}]
            cand = [(2, 1)]
        i, a = rng.choice(cand)
        j = base[i - 1]["argspec"][a][1]
        twin = {"same_as": base[i - 1].get("same_as", i), "argspec": [list(x) for x in base[i - 1]["argspec"]], "kwspec": base[i - 1]["kwspec"]}
        twin["argspec"][a] = ["v", rng.choice([j - 1, j])]
        progs.append(base + [twin])
    # the same function called with a list and with the equal tuple (and with nested / empty variants): different
    # calls, two boxes.  Tuples are outside Model/Plot.v's argument language: these programs are judged by the
    # property's counts only (no model comparison).
    nomodel = set()
    for k in range(8 if res.tier == "quick" else 40):
        base = gen_program(rng, allow_dups=False)[:3]
        items = [["v", rng.randint(0, 3)] for _ in range(rng.choice([0, 1, 2, 2]))]
        i = len(base) + 1
        pos = rng.random() < 0.6
        first = {"argspec": [["l", items]] if pos else [], "kwspec": [] if pos else [["a", ["l", items]]]}
        twin = {"same_as": i, "argspec": [["t", items]] if pos else [], "kwspec": [] if pos else [["a", ["t", items]]]}
        pair = [first, twin] if rng.random() < 0.5 else [dict(twin, same_as=i), dict(first, same_as=i)]
        nomodel.add(len(progs))
        progs.append(base + pair)
    cases = [{"mode": "exec", "kwargs": {"plot_dependency_graph": True}, "calls": p,
              "ops": [["submit", i + 1] for i in range(len(p))] + [["exit"]], "schedule": lockstep.gen_schedule(rng, 400),
              "step_limit": 600} for p in progs]
    # two plot-mode executors one after the other in one interpreter: the second graph shows the second program only
    two = []
    for k in range(6 if res.tier == "quick" else 40):
        p1, p2 = gen_program(rng, allow_dups=False), gen_program(rng, allow_dups=False)

        def shift(sp, off):
            if sp[0] == "f":
                return ["f", sp[1] + off]
            if sp[0] == "l":
                return ["l", [shift(x, off) for x in sp[1]]]
            return sp
        p2s = [{"argspec": [shift(x, len(p1)) for x in c["argspec"]], "kwspec": [[kk, shift(v, len(p1))] for kk, v in c["kwspec"]]} for c in p2]
        two.append({"mode": "exec", "kwargs": {"plot_dependency_graph": True}, "calls": p1 + p2s,
                    "sessions": [{"ops": [["submit", i + 1] for i in range(len(p1))] + [["exit"]]},
                                 {"ops": [["submit", len(p1) + i + 1] for i in range(len(p2s))] + [["exit"]]}],
                    "schedule": lockstep.gen_schedule(rng, 600), "step_limit": 800, "_n2": len(p2s), "_n1": len(p1)})
    # plot mode asked for together with disable_dependencies=True: the constructor has to refuse (C19_plot_without_
    # dependencies_refused); an executor that is handed out all the same must still behave as plot mode
    nodep = [{"mode": "exec", "kwargs": dict({"plot_dependency_graph": True, "disable_dependencies": True}, **extra_kw), "calls": p,
              "ops": [["submit", i + 1] for i in range(len(p))] + [["exit"]], "schedule": lockstep.gen_schedule(rng, 400), "step_limit": 600}
             for extra_kw in ({}, {"block_allocation": True, "max_workers": 1}, {"max_cores": 2})
             for p in [[{"argspec": [["v", 1]], "kwspec": []}, {"argspec": [["v", 2]], "kwspec": []}]]]
    with core.Lock():
        gate = core.grep_gate()
        status = core.regen()
        pr = core.proof_stage(res, PID, CONE, [], status)
        if gate:
            pr["ok"] = False
            pr["broken"].append({"kind": "gate", "error": gate})
        results = lockstep.run_cases(cases)
        mism, fails, hits = [], [], 0
        try:
            outs = core.eval_strings(IMPORTS, ["show_graph (graph [%s])%%nat" % "; ".join(call_coq(i + 1, c) for i, c in enumerate(p))
                                               if k not in nomodel else '"-"' for k, p in enumerate(progs)], PID + "_graph")
        except core.CaseEvalError as ex:
            outs = None
            pr["ok"] = False
            pr["broken"].append({"kind": "case-eval", "error": str(ex)[-1000:]})
    for k, (p, r) in enumerate(zip(progs, results)):
        outc = r.get("outcomes", [])
        raised = [o for o in outc if o[0] in ("submit", "exit") and o[-1] != "ok"]
        if raised:
            impl = "KeyError" if any("KeyError" in str(o[-1]) for o in raised) else "raise:%s" % raised[0][-1]
        elif not r.get("graphs"):
            impl = "no-graph"
        else:
            g = r["graphs"][0]
            impl = ",".join("%s#%d%s" % (lab, nid, "b" if sh == "box" else "c") for nid, lab, sh in g["nodes"]) + "|" + \
                ",".join("%d>%d:%s" % (a, b, lab) for a, b, lab in g["edges"])
        if outs is not None and k not in nomodel and outs[k] != impl:
            mism.append({"program": p, "implementation": impl, "model": outs[k]})
        # nothing runs, futures done at once
        labels = {lab[0] for en, pick, lab in r.get("trace", [])}
        why = None
        if labels & {"spawn", "zsend", "body", "put"} - {"put"} or any(lab[0] == "put" and str(lab[2]).startswith("T") for en, pick, lab in r.get("trace", [])):
            why = "plot mode started a worker / forwarded a call: labels %r" % sorted(labels)
        elif any(not str(st).startswith("res:") for st in r.get("futures", {}).values()) and not raised:
            why = "a future returned in plot mode is not done: %r" % (r.get("futures"),)
        elif impl == "KeyError" or impl.startswith("raise"):
            why = "plot mode raised %s" % impl
        elif impl != "no-graph":
            nb = sum(1 for nid, lab, sh in r["graphs"][0]["nodes"] if sh == "box")
            ne = len(r["graphs"][0]["edges"])
            want_e = sum(sum(arg_edges(a) for a in c["argspec"]) + sum(arg_edges(v) for _, v in c["kwspec"]) for c in p)
            if nb != len(p):
                why = "%d calls were submitted but the graph has %d box nodes" % (len(p), nb)
            elif ne != want_e:
                why = "the graph has %d edges, one per argument would be %d" % (ne, want_e)
            else:
                # every keyword edge carries its keyword name
                labs = sorted(lab for a, b, lab in r["graphs"][0]["edges"] if lab)
                want = sorted(k2 for c in p for k2, v in c["kwspec"] for _ in range(arg_edges(v)))
                if labs != want:
                    why = "edge labels %r, keyword names would be %r" % (labs, want)
        else:
            why = "no graph was handed to the drawing library"
        if why:
            if has_dup(p):
                hits += 1
            else:
                fails.append({"program": p, "why": why})
    for c, r in zip(nodep, lockstep.run_cases(nodep)):
        outc = r.get("outcomes", [])
        if outc and outc[0][0] == "construct" and outc[0][-1] != "ok":
            continue            # refused at construction
        labels = {lab[0] for en, pick, lab in r.get("trace", [])}
        if labels & {"spawn", "zsend", "body"} or not r.get("graphs"):
            fails.append({"program": c["calls"], "kwargs": c["kwargs"],
                          "why": "Executor(%s) was accepted and then %s" % (
                              ", ".join("%s=%r" % kv for kv in c["kwargs"].items()),
                              "executed the submitted calls (labels %r)" % sorted(labels & {"spawn", "zsend", "body"})
                              if labels & {"spawn", "zsend", "body"} else "drew no graph")})
    res.cov["plot_without_dependencies_cases"] = len(nodep)
    two_fail = None
    for c, r in zip(two, lockstep.run_cases(two)):
        gs = r.get("graphs") or []
        if len(gs) != 2:
            if r.get("verdict") in ("done", "quiescent", "deadlock"):
                two_fail = {"program": c["calls"], "why": "two plot-mode executors in one process drew %d graphs" % len(gs)}
            continue
        nb = [sum(1 for nid, lab, sh in g["nodes"] if sh == "box") for g in gs]
        if nb != [c["_n1"], c["_n2"]]:
            two_fail = {"program": c["calls"], "sessions": [s2["ops"] for s2 in c["sessions"]],
                        "why": "two plot-mode executors one after the other: the graphs have %r boxes, the programs %r calls "
                               "(the second executor must draw its own calls only)" % (nb, [c["_n1"], c["_n2"]])}
    if two_fail:
        fails.append(two_fail)
    res.cov["two_executor_cases"] = len(two)
    res.cov.update({"evaluations": len(progs), "distinct_nontrivial": len({json.dumps(p) for p in progs}),
                    "traces_validated_against_impl": 0 if outs is None else len(progs), "model_mismatches": len(mism),
                    "oracle_failures": len(fails), "known_finding_hits": {"D15": hits},
                    "rule": "seeded acyclic programs (1-5 calls; positional and keyword arguments that are values, futures of earlier "
                            "calls, lists of futures, mixed and empty lists; every fourth program with repeated identical calls) run "
                            "with plot_dependency_graph=True under the simulator; the graph given to the recorded drawing library is "
                            "compared with Model/Plot.v (vm_compute) and with the property's counts; distinct = distinct programs",
                    "samples": [{"program": progs[0], "graph": results[0].get("graphs")}]})
    res.assumptions = ["drawing stack (IPython.display, matplotlib, networkx/pygraphviz) replaced by recorders",
                       "cloudpickle of a call is deterministic and injective on (function, arguments) — the model hashes structurally"]
    f15 = [f for f in core.load_findings()["open"] if f["property"] == PID and f["id"] == "D15"]
    if hits and f15:
        res.known.append("id=D15 %s (reproduced on %d explored programs)" % (f15[0]["what"], hits))
    elif hits:
        fails.append({"why": "repeated identical calls break the graph but D15 is not listed"})
    if fails:
        f = min(fails, key=lambda x: len(json.dumps(x)))
        res.violation("plot mode violates the property on a concrete program", {"kind": "oracle", "case": f, "count": len(fails),
                                                                                "broken_tie": pr["broken"], "mismatch": mism[:2]})
    elif mism or not pr["ok"]:
        res.violation("proof or model/code correspondence no longer checks; no failing program found",
                      {"kind": "tie", "broken": pr["broken"], "mismatch": mism[:3]}, found_input=False)


def replay(path):
    print(open(path).read()[:3000])
    return 0
