"""C18 — multi-core calls (MPI stand-in: ranks are threads)."""
import json

import core
import wproto

PID = "C18"
GEN = ["InputCheck", "Spawner", "Backend", "SharedPath", "CacheCmd", "Communication", "WorkerParallel", "CacheParallel",
       "CacheBackend"]
CONE = ["Base/Dec.v", "Base/PyLib.v", "Base/Tac.v", "Model/Worker.v", "Model/Grammar.v", "Proofs/DictFacts.v",
        "Proofs/C16Proofs.v", "Proofs/C18Proofs.v"]
IMPORTS = ["Base.Dec", "Base.PyLib", "Base.Show", "Model.Worker", "Model.Interp", "Gen.InputCheck", "Gen.Backend", "Gen.WorkerParallel",
           "Gen.CacheParallel", "Gen.CacheBackend"]

FILE_APPLY = ("(fun r d => f <- py_getitem d (VStr \"fn\") ;; a <- py_getitem d (VStr \"args\") ;; k <- py_getitem d (VStr \"kwargs\") ;; "
              "pos <- py_iter a ;; interp (Z.of_nat r) f pos k)")


def drive_file_parallel(req, n):
    """the real backend/cache_parallel.main on n rank threads; the task file is replaced by the dictionary it would hold"""
    import importlib
    import types
    from unittest import mock
    from mpi4py import MPI
    cp = importlib.import_module("executorlib.backend.cache_parallel")
    writes = [[] for _ in range(n)]
    loads = []

    def load(file_name):
        loads.append(MPI.COMM_WORLD.Get_rank())
        return wproto.to_real(req)

    def write(file_name, output):
        writes[MPI.COMM_WORLD.Get_rank()].append(output)

    fake_sys = types.SimpleNamespace(argv=["cache_parallel.py", "/nowhere/task.h5in"])
    with mock.patch.object(cp, "backend_load_file", load), mock.patch.object(cp, "backend_write_file", write), \
            mock.patch.object(cp, "sys", fake_sys):
        errs, alive = MPI.launch(n, cp.main)
    if any(alive):
        return "HANG", writes, loads
    real = [e for e in errs if e is not None and type(e).__name__ != "BrokenBarrierError"]
    if real:
        return "Err " + type(real[0]).__name__, writes, loads
    return "Ok " + core.show([w for w in writes]), writes, loads


def drive_file_serial(req):
    import importlib
    from unittest import mock
    cb = importlib.import_module("executorlib.cache.backend")
    writes = []
    with mock.patch.object(cb, "backend_load_file", lambda file_name: wproto.to_real(req)), \
            mock.patch.object(cb, "backend_write_file", lambda file_name, output: writes.append(output)):
        try:
            cb.backend_execute_task_in_file(file_name="/nowhere/task.h5in")
        except Exception as ex:  # noqa
            return "Err " + type(ex).__name__, writes
    return "Ok " + core.show(writes), writes


def file_oracle(req, py, writes, loads, n):
    """C18 in file mode stated directly: the task file is read by rank 0 only; on success exactly one value is written,
    by rank 0, holding one return value per rank in rank order (the bare value for a single rank)"""
    fn, pos, kw = req[1][0], req[2], req[3]
    if loads != [0]:
        return "task file loaded by ranks %r (expected rank 0 only, once)" % (loads,)
    if fn == "boom":
        if any(writes) or not py.startswith("Err ValueError"):
            return "raising function: outcome %s, written %r" % (py, writes)
        return None
    if not py.startswith("Ok"):
        return "succeeding function ended with %s" % py
    if [len(w) for w in writes] != [1] + [0] * (n - 1):
        return "writes per rank %r (expected exactly one, by rank 0)" % ([len(w) for w in writes],)
    res = writes[0][0]
    if n > 1:
        if not isinstance(res, list) or len(res) != n:
            return "multi-rank result is not a list of %d values: %r" % (n, res)
        vals = res
    else:
        vals = [res]
    marker = pos[0] if pos else kw.get("a")
    for rank, one in enumerate(vals):
        if fn == "retnone":
            if one is not None:
                return "rank %d value %r for a function returning None" % (rank, one)
            continue
        if marker is not None and (not isinstance(one, list) or one[0] != marker):
            return "value %r does not belong to the task with marker %r" % (one, marker)
        if fn == "rankecho" and one[1] != rank:
            return "rank order violated: %r" % (res,)
    return None


def build_cases(res):
    rng = res.rng
    n = 150 if res.tier == "quick" else 1500
    cases = []
    for _ in range(n):
        ranks = rng.choice([2, 2, 3, 4, 5])
        seq = wproto.gen_sequence(rng, parallel=True)
        py, reps, exited = wproto.drive_parallel(seq, ranks)
        verdict = None
        if exited is not None:
            verdict = wproto.oracle_sequence(seq, reps, exited, n=ranks)
        else:
            verdict = "parallel worker did not finish normally: %s" % py
        app = "(fun r => %s)" % (wproto.APPLY % "(Z.of_nat r)")
        coq = wproto.RUN_SHOW % ("par_run wstep_rank %d %s (List.repeat VNone %d) [%s]" % (
            ranks, app, ranks, "; ".join(wproto.to_coq(r) for r in seq)))
        cases.append(("interactive_parallel.main x%d" % ranks, dict(ranks=ranks, seq=seq), coq, py, verdict))
    # ---- file mode: the real cache_parallel.main on rank threads / the serial file worker vs the regenerated bodies
    for i in range(n // 2):
        ranks = rng.choice([1, 2, 2, 3, 4, 5])
        req = wproto.gen_request(rng, i + 1, parallel=True)
        while req[0] != "call":
            req = wproto.gen_request(rng, i + 1, parallel=True)
        py, writes, loads = drive_file_parallel(req, ranks)
        verdict = file_oracle(req, py, writes, loads, ranks)
        coq = ("match file_par file_rank %d %s %s with Ok ws => \"Ok \" ++ show (VList (List.map (fun w => match w with "
               "VTuple [l] => l | _ => VStr \"?\" end) ws)) | Err e => \"Err \" ++ e end" % (ranks, FILE_APPLY, wproto.to_coq(req)))
        cases.append(("cache_parallel.main x%d" % ranks, dict(ranks=ranks, request=req), coq, py, verdict))
        if req[1][0] != "rankecho":
            pys, ws = drive_file_serial(req)
            vs = None
            if req[1][0] == "boom":
                vs = None if (pys == "Err ValueError" and not ws) else "raising function: %s, written %r" % (pys, ws)
            elif len(ws) != 1:
                vs = "serial file worker wrote %d values" % len(ws)
            coqs = ("match file_serial (fun _ => %s 0%%nat) %s with Ok (VTuple [l]) => \"Ok \" ++ show l | Ok _ => \"?\" | Err e => \"Err \" ++ e end"
                    % (FILE_APPLY, wproto.to_coq(req)))
            cases.append(("backend_execute_task_in_file", dict(request=req), coqs, pys, vs))
    return cases


def run(res):
    core.standard_run(res, PID, CONE, GEN, IMPORTS, build_cases,
                      rule=("seeded request sequences (as C17, functions that report their rank included) on 2-5 ranks; the real "
                            "interactive_parallel.main runs on every rank (threads of the mpi4py stand-in), the regenerated per-rank "
                            "loop body is composed with bcast/gather in Coq (par_run) and evaluated by vm_compute; replies compared; "
                            "an independent oracle checks one reply per call and rank order; file mode: the real cache_parallel.main "
                            "on 1-5 rank threads and the serial file worker, task file content and result write replaced by recorders, "
                            "vs the regenerated bodies composed by file_par; distinct = distinct (ranks, sequence)"),
                      assumptions=["MPI stand-in: bcast delivers the root's object, gather delivers all ranks' values in rank order to "
                                   "the root (real MPI is not installed)", "functions that fail on some ranks only are excluded "
                                   "(real MPI would hang in gather; not part of C18)",
                                   "file mode: the bodies of cache_parallel.main and backend_execute_task_in_file are regenerated with the task "
                                   "file's content and backend_write_file cut out as parameter / recorded sink (the HDF5 protocol itself is C13/C14)",
                                   "translator + PyLib (differentially tested each run)"])


def replay(path):
    r = json.load(open(path))["replay"]
    print(json.dumps(r, indent=1)[:3000])
    return 0
