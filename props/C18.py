"""C18 — multi-core calls (MPI stand-in: ranks are threads)."""
import json

import core
import wproto

PID = "C18"
GEN = ["InputCheck", "Spawner", "Backend", "SharedPath", "CacheCmd", "Communication", "WorkerParallel"]
CONE = ["Base/Dec.v", "Base/PyLib.v", "Base/Tac.v", "Model/Worker.v", "Model/Grammar.v", "Proofs/DictFacts.v",
        "Proofs/C16Proofs.v", "Proofs/C18Proofs.v"]
IMPORTS = ["Base.Dec", "Base.PyLib", "Base.Show", "Model.Worker", "Model.Interp", "Gen.InputCheck", "Gen.Backend", "Gen.WorkerParallel"]


def build_cases(res):
    rng = res.rng
    n = 150 if res.tier == "quick" else 1500
    cases = []
    for _ in range(n):
        ranks = rng.choice([2, 2, 3, 4, 5])
        seq = wproto.gen_sequence(rng, parallel=True)
        py, reps, exited = wproto.drive_parallel(seq, ranks)
        verdict = None
        if exited is not None:
            verdict = wproto.oracle_sequence(seq, reps, exited, n=ranks)
        else:
            verdict = "parallel worker did not finish normally: %s" % py
        app = "(fun r => %s)" % (wproto.APPLY % "(Z.of_nat r)")
        coq = wproto.RUN_SHOW % ("par_run wstep_rank %d %s (List.repeat VNone %d) [%s]" % (
            ranks, app, ranks, "; ".join(wproto.to_coq(r) for r in seq)))
        cases.append(("interactive_parallel.main x%d" % ranks, dict(ranks=ranks, seq=seq), coq, py, verdict))
    return cases


def run(res):
    core.standard_run(res, PID, CONE, GEN, IMPORTS, build_cases,
                      rule=("seeded request sequences (as C17, functions that report their rank included) on 2-5 ranks; the real "
                            "interactive_parallel.main runs on every rank (threads of the mpi4py stand-in), the regenerated per-rank "
                            "loop body is composed with bcast/gather in Coq (par_run) and evaluated by vm_compute; replies compared; "
                            "an independent oracle checks one reply per call and rank order; distinct = distinct (ranks, sequence)"),
                      assumptions=["MPI stand-in: bcast delivers the root's object, gather delivers all ranks' values in rank order to "
                                   "the root (real MPI is not installed)", "functions that fail on some ranks only are excluded "
                                   "(real MPI would hang in gather; not part of C18)",
                                   "file-mode cache_parallel.py: only its command line is covered (C18_file_mode_command)",
                                   "translator + PyLib (differentially tested each run)"])


def replay(path):
    r = json.load(open(path))["replay"]
    print(json.dumps(r, indent=1)[:3000])
    return 0
