"""Which definitions of /repo/executorlib are translated, into which Gen/*.v file, and how
effectful leftovers are cut (opaque expressions become parameters; `returns_call` makes the
arguments of one call the result of the model function).  Order matters: a function must be
listed after the functions it calls."""

SPAWNER = dict(
    out="Spawner", file="executorlib/standalone/interactive/spawner.py",
    consts=["MPI_COMMAND", "SLURM_COMMAND"],
    classes=["BaseSpawner", "SubprocessSpawner", "MpiExecSpawner", "SrunSpawner"],
    funcs=[
        dict(py="generate_mpiexec_command"),
        dict(py="generate_slurm_command"),
        dict(py="BaseSpawner.__init__", inout=["self"]),
        dict(py="SubprocessSpawner.__init__", inout=["self"]),
        dict(py="SubprocessSpawner.generate_command"),
        dict(py="MpiExecSpawner.generate_command"),
        dict(py="SrunSpawner.__init__", inout=["self"]),
        dict(py="SrunSpawner.generate_command"),
        dict(py="SubprocessSpawner.bootup", name="SubprocessSpawner_bootup",
             returns_call=("subprocess.Popen", ["args", "cwd"])),
        dict(py="SubprocessSpawner.bootup", name="MpiExecSpawner_bootup", as_class="MpiExecSpawner",
             returns_call=("subprocess.Popen", ["args", "cwd"])),
        dict(py="SubprocessSpawner.bootup", name="SrunSpawner_bootup", as_class="SrunSpawner",
             returns_call=("subprocess.Popen", ["args", "cwd"])),
    ])

COMMUNICATION = dict(
    out="Communication", file="executorlib/standalone/interactive/communication.py",
    classes=["SocketInterface"],
    funcs=[
        dict(py="SocketInterface.receive_dict", name="receive_dict",
             opaque={"cloudpickle.loads(self._socket.recv())": "received"}),
        dict(py="interface_bootup", inout=["command_lst"],
             opaque={"sys.platform": "platform", "gethostname()": "hostname",
                     "interface.bind_to_random_port()": "port"},
             skip=["interface = SocketInterface(spawner=connections)"],
             returns_call=("interface.bootup", ["command_lst"])),
    ])

BACKEND = dict(
    out="Backend", file="executorlib/standalone/interactive/backend.py",
    funcs=[
        dict(py="update_default_dict_from_arguments", inout=["default_dict"]),
        dict(py="parse_arguments", returns_fresh=True),
        dict(py="_update_dict_delta", returns_fresh=True),
        dict(py="call_funct", inout=["input_dict"], returns_apply="funct",
             skip=["if funct is None:\n\n    def funct(*args, **kwargs):\n        return args[0].__call__(*args[1:], **kwargs)"],
             opaque={"inspect.getfullargspec(input_dict['fn']).args": "funct_args"}),
    ])

SHARED_PATH = dict(
    out="SharedPath", file="executorlib/interactive/shared.py",
    funcs=[
        dict(py="_get_backend_path",
             opaque={"sys.executable": "sys_executable",
                     "importlib.util.find_spec('mpi4py') is not None": "has_mpi4py",
                     "get_command_path(executable='interactive_parallel.py')": "path_parallel",
                     "get_command_path(executable='interactive_serial.py')": "path_serial"}),
    ])

CACHE_CMD = dict(
    out="CacheCmd", file="executorlib/cache/shared.py",
    funcs=[
        dict(py="_get_execute_command",
             opaque={"sys.executable": "sys_executable",
                     "importlib.util.find_spec('mpi4py') is not None": "has_mpi4py",
                     "get_command_path(executable='cache_parallel.py')": "path_parallel",
                     "get_command_path(executable='cache_serial.py')": "path_serial"}),
    ])

INPUTCHECK = dict(
    out="InputCheck", file="executorlib/standalone/inputcheck.py",
    funcs=[
        dict(py="check_oversubscribe"),
        dict(py="check_command_line_argument_lst"),
        dict(py="check_gpus_per_worker"),
        dict(py="check_executor"),
        dict(py="check_nested_flux_executor"),
        dict(py="check_resource_dict_is_empty"),
        dict(py="check_refresh_rate", opaque={"refresh_rate != 0.01": "refresh_rate_is_not_default"}),
        dict(py="check_plot_dependency_graph"),
        dict(py="check_pmi"),
        dict(py="check_init_function"),
        dict(py="check_max_workers_and_cores"),
        dict(py="check_hostname_localhost"),
        dict(py="check_flux_executor_pmi_mode"),
        dict(py="check_pysqa_config_directory"),
        dict(py="validate_number_of_cores", opaque={"multiprocessing.cpu_count()": "cpu_count"}),
    ])

_LOOP_COMMON = dict(
    send="interface_send", send_kw="result_dict",
    recv="interface_receive(socket=socket)", recv_param="received",
    ignore=["interface_shutdown(socket=socket, context=context)", "MPI.COMM_WORLD.Barrier()"],
    init={"memory": "None"}, state=["memory"])

WORKER_SERIAL = dict(
    out="WorkerSerial", file="executorlib/backend/interactive_serial.py",
    funcs=[
        dict(py="main", name="wstep_serial",
             inline={"str(type(error))": "(py_type_str v_error)"},
             loop=dict(_LOOP_COMMON, params=["memory", "received"], drop_first_recv="input_dict",
                       rename_recv="input_dict")),
    ])

WORKER_PARALLEL = dict(
    out="WorkerParallel", file="executorlib/backend/interactive_parallel.py",
    funcs=[
        dict(py="main", name="wstep_rank",
             inline={"str(type(error))": "(py_type_str v_error)"},
             loop=dict(_LOOP_COMMON, params=["memory", "received", "mpi_rank_zero", "mpi_size_larger_one"],
                       collectives={"MPI.COMM_WORLD.bcast": ("bcast", {"root": "0"}),
                                    "MPI.COMM_WORLD.gather": ("gather", {"root": "0"})})),
    ])

CACHE_PARALLEL = dict(
    out="CacheParallel", file="executorlib/backend/cache_parallel.py",
    funcs=[
        dict(py="main", name="file_rank",
             straight=dict(
                 pre=["from mpi4py import MPI",
                      "MPI.pickle.__init__(cloudpickle.dumps, cloudpickle.loads, pickle.HIGHEST_PROTOCOL)",
                      "mpi_rank_zero = MPI.COMM_WORLD.Get_rank() == 0",
                      "mpi_size_larger_one = MPI.COMM_WORLD.Get_size() > 1",
                      "file_name = sys.argv[1]"],
                 post=["MPI.COMM_WORLD.Barrier()"],
                 params=["loaded", "mpi_rank_zero", "mpi_size_larger_one"],
                 replace={"backend_load_file(file_name=file_name)": "loaded"},
                 apply="apply_dict['fn'].__call__(*apply_dict['args'], **apply_dict['kwargs'])", apply_arg="apply_dict",
                 sink=("backend_write_file", "output", {"file_name": "file_name"}),
                 collectives={"MPI.COMM_WORLD.bcast": ("bcast", {"root": "0"}),
                              "MPI.COMM_WORLD.gather": ("gather", {"root": "0"})})),
    ])

CACHE_BACKEND = dict(
    out="CacheBackend", file="executorlib/cache/backend.py",
    funcs=[
        dict(py="backend_execute_task_in_file", name="file_serial",
             straight=dict(
                 pre=[], post=[], params=["loaded"],
                 replace={"backend_load_file(file_name=file_name)": "loaded"},
                 apply="apply_dict['fn'].__call__(*apply_dict['args'], **apply_dict['kwargs'])", apply_arg="apply_dict",
                 sink=("backend_write_file", "output", {"file_name": "file_name"}),
                 collectives={})),
    ])

SERIALIZE = dict(
    out="Serialize", file="executorlib/standalone/serialize.py",
    funcs=[
        dict(py="serialize_funct_h5", opaque={"fn.__name__": "fn_name"},
             opaque_fun={"cloudpickle.dumps": ("dumps", 1), "_get_hash": ("get_hash", 1)}),
    ])

SHARED_RES = dict(
    out="SharedRes", file="executorlib/interactive/shared.py", requires=["InputCheck"],
    funcs=[
        dict(py="_wait_for_free_slots", name="wait_guards",
             guards_only=[
                 dict(name="wait_guard_cores", vars=["active_task_dict", "cores_requested", "max_cores"],
                      body="active_task_dict = {k: v for k, v in active_task_dict.items() if not k.done()}"),
                 dict(name="wait_guard_workers", vars=["active_task_dict", "max_workers"],
                      body="active_task_dict = {k: v for k, v in active_task_dict.items() if not k.done()}"),
             ]),
        dict(py="_submit_function_to_separate_process", inout=["task_dict"],
             skip=["qtask.put(task_dict)", "qtask.put({'shutdown': True, 'wait': True})"],
             opaque_fun={"_wait_for_free_slots": ("wait_slots", 4)},
             returns_call=("RaisingThread", ["kwargs"], ["slots_required", "active_task_dict"])),
        dict(py="ExecutorBroker.submit", name="broker_submit_checks", allow_star=True,
             snippet=dict(first="check_resource_dict_is_empty(resource_dict=resource_dict)",
                          last="check_resource_dict_is_empty(resource_dict=resource_dict)",
                          params=["resource_dict"], returns=["resource_dict"])),
    ])

CACHE_RES = dict(
    out="CacheRes", file="executorlib/cache/shared.py",
    funcs=[
        dict(py="execute_tasks_h5", name="file_mode_resources",
             snippet=dict(first="task_resource_dict = task_dict['resource_dict'].copy()",
                          last="task_resource_dict.update({k: v for k, v in resource_dict.items() if k not in task_resource_dict})",
                          params=["task_dict", "resource_dict"], returns=["task_resource_dict", "task_dict", "resource_dict"])),
    ])

STEP_CTOR = dict(
    out="StepCtor", file="executorlib/interactive/shared.py",
    funcs=[
        dict(py="InteractiveStepExecutor.__init__", name="step_ctor", inout=["executor_kwargs"],
             skip=["super().__init__(max_cores=executor_kwargs.get('max_cores', None))"],
             opaque={"self._future_queue": "future_queue"},
             returns_call=("RaisingThread", ["kwargs"]), rc_wrapper="self._set_process"),
    ])

CACHE_KEY = dict(
    out="CacheKey", file="executorlib/cache/shared.py", requires=["Serialize"],
    funcs=[
        dict(py="execute_tasks_h5", name="file_mode_key",
             snippet=dict(first="task_resource_dict = task_dict['resource_dict'].copy()",
                          last="task_key, data_dict = serialize_funct_h5(fn=task_dict['fn'], fn_args=task_args, fn_kwargs=task_kwargs, resource_dict=task_resource_dict)",
                          params=["task_dict", "resource_dict", "task_args", "task_kwargs"],
                          returns=["task_key", "data_dict", "task_resource_dict"])),
    ])

CONFIG_INTER = dict(
    out="ConfigInter", file="executorlib/interactive/executor.py", requires=["InputCheck"],
    funcs=[
        dict(py="create_executor", inout=["resource_dict"],
             record_calls=["InteractiveExecutor", "InteractiveStepExecutor"],
             names=["MpiExecSpawner", "SrunSpawner", "FluxPythonSpawner"]),
    ])

CONFIG_FILE = dict(
    out="ConfigFile", file="executorlib/cache/executor.py", requires=["InputCheck"],
    funcs=[
        dict(py="create_file_executor", record_calls=["FileExecutor"]),
    ])

CONFIG_TOP = dict(
    out="ConfigTop", file="executorlib/__init__.py", requires=["InputCheck", "ConfigInter", "ConfigFile"],
    funcs=[
        dict(py="Executor.__new__", name="Executor_new", inout=["resource_dict"],
             record_calls=["_ExecutorWithDependencies"],
             aliases={"_create_executor": "create_executor",
                      "_check_pysqa_config_directory": "check_pysqa_config_directory",
                      "_check_plot_dependency_graph": "check_plot_dependency_graph",
                      "_check_refresh_rate": "check_refresh_rate"},
             ),
    ])

BASE_EXEC = dict(
    out="BaseExec", file="executorlib/base/executor.py",
    funcs=[
        dict(py="ExecutorBase.submit", name="submit_cores_check", allow_star=True,
             snippet=dict(first="cores = resource_dict.get('cores', None)",
                          last="if cores is not None and self._max_cores is not None and (cores > self._max_cores):\n    raise ValueError('The specified number of cores is larger than the available number of cores.')",
                          params=["self", "resource_dict"], returns=["resource_dict"])),
    ])

TARGETS = [INPUTCHECK, SPAWNER, COMMUNICATION, BACKEND, SHARED_PATH, CACHE_CMD, WORKER_SERIAL, WORKER_PARALLEL, CACHE_PARALLEL, CACHE_BACKEND, SERIALIZE, SHARED_RES, STEP_CTOR, CACHE_RES, CACHE_KEY, CONFIG_INTER, CONFIG_FILE, CONFIG_TOP, BASE_EXEC]
