#!/usr/bin/env python3
"""py2v: fail-closed translator from a small Python subset to Gallina over EL.Base.PyLib.

Every construct that is not explicitly handled raises Unsupported (with file:line): the
translator never guesses.  Emission is dynamically typed (pyval) inside the exception monad
`res`; statement sequences become nested binds; in-place mutation is modelled by rebinding
and is only accepted on objects the function owns (fresh literals / .copy() / comprehension
results / call results) or on parameters declared `inout` in the target description (these
are returned next to the function result).  See DESIGN.md section 3.2.
"""
import ast
import hashlib
import os
import sys


class Unsupported(Exception):
    pass


def coq_string(s):
    for ch in s:
        if not (32 <= ord(ch) < 127):
            raise Unsupported("non printable-ASCII string literal %r" % s)
    return '"' + s.replace('"', '""') + '"'


def mangle(name):
    return "v_" + name


METH_PURE = {  # method name -> (PyLib function, number of args)
    "copy": ("py_copy", 0),
    "keys": ("py_keys", 0),
    "values": ("py_values", 0),
    "items": ("py_items", 0),
    "index": ("py_index", 1),
    "split": ("py_split", 1),
}
CMP = {ast.Gt: "py_gt", ast.GtE: "py_ge", ast.Lt: "py_lt", ast.LtE: "py_le",
       ast.Eq: "py_eq", ast.NotEq: "py_ne", ast.In: "py_in", ast.NotIn: "py_not_in"}


class FnInfo:
    def __init__(self, qual, node, cls, opts):
        self.qual = qual            # "Class.meth" or "func"
        self.node = node
        self.cls = opts.get("as_class", cls)   # class name used to resolve self.m(...) / super()
        self.opts = opts
        self.coqname = opts.get("name", qual.replace(".", "_"))
        a = node.args
        if a.vararg or a.kwarg or a.posonlyargs:
            if not opts.get("allow_star"):
                raise Unsupported("%s: *args/**kwargs in signature" % qual)
        self.params = [x.arg for x in a.args] + [x.arg for x in a.kwonlyargs]
        ds = list(a.defaults)
        self.defaults = {}
        pos = [x.arg for x in a.args]
        for name, d in zip(pos[len(pos) - len(ds):], ds):
            self.defaults[name] = d
        for x, d in zip(a.kwonlyargs, a.kw_defaults):
            if d is not None:
                self.defaults[x.arg] = d
        self.inout = list(opts.get("inout", []))
        self.opaque = dict(opts.get("opaque", {}))      # expr string -> coq param name
        self.opaque_fun = dict(opts.get("opaque_fun", {}))  # callee string -> (coq name, arity)
        self.inline = dict(opts.get("inline", {}))      # expr string -> Gallina pyval term (no parameter)
        self.aliases = dict(opts.get("aliases", {}))    # local name -> qualified name of a translated function
        self.record_calls = list(opts.get("record_calls", []))  # constructors recorded as (name, kwargs)
        self.fuel = bool(opts.get("fuel", False))
        self.inherited = []         # opaque parameters of callees, passed through

    def opaque_params(self):
        out = []
        for v in list(self.opaque.values()) + list(self.inherited):
            if v not in out:
                out.append(v)
        return out


class Translator:
    def __init__(self, repo, target, known):
        self.repo = repo
        self.t = target
        self.known = known          # qual -> FnInfo of functions from required modules
        self.path = os.path.join(repo, target["file"])
        with open(self.path) as fh:
            self.src = fh.read()
        self.tree = ast.parse(self.src)
        self.consts = {}
        self.funcs = {}
        self.classes = {}
        self.tmp = 0
        self.out = []

    # ------------------------------------------------------------------ utilities
    def err(self, node, msg):
        raise Unsupported("%s:%s: %s [%s]" % (self.t["file"], getattr(node, "lineno", "?"), msg,
                                                ast.dump(node)[:200] if isinstance(node, ast.AST) else node))

    def fresh(self):
        self.tmp += 1
        return "t%d" % self.tmp

    def find_def(self, qual):
        parts = qual.split(".")
        body = self.tree.body
        cls = None
        for i, p in enumerate(parts):
            found = None
            for n in body:
                if isinstance(n, (ast.FunctionDef, ast.ClassDef)) and n.name == p:
                    if found is not None:
                        raise Unsupported("%s defined twice in %s" % (qual, self.t["file"]))
                    found = n
            if found is None:
                raise Unsupported("%s not found in %s" % (qual, self.t["file"]))
            if isinstance(found, ast.ClassDef):
                cls = found
                body = found.body
            else:
                if i != len(parts) - 1:
                    # nested function: descend
                    body = found.body
                    continue
                return found, (cls.name if cls is not None and len(parts) == 2 and i == 1 else None), cls
        raise Unsupported("%s is not a function" % qual)

    # ------------------------------------------------------------------ driver
    def run(self):
        t = self.t
        lines = ["(* GENERATED by translator/py2v.py from %s — do not edit. *)" % t["file"],
                 "From Coq Require Import ZArith String List Bool.",
                 "From EL Require Import Base.Dec Base.PyLib."]
        for r in t.get("requires", []):
            lines.append("From EL Require Import Gen.%s." % r)
        lines += ["Import ListNotations.", "Local Open Scope string_scope.", ""]
        for c in t.get("consts", []):
            val = None
            for n in self.tree.body:
                if isinstance(n, ast.Assign) and len(n.targets) == 1 and isinstance(n.targets[0], ast.Name) \
                        and n.targets[0].id == c:
                    if val is not None:
                        raise Unsupported("constant %s assigned twice" % c)
                    val = n.value
            if val is None or not isinstance(val, ast.Constant):
                raise Unsupported("constant %s not found as literal" % c)
            self.consts[c] = self.const(val)
            lines.append("Definition c_%s : pyval := %s." % (c, self.consts[c]))
        for c in t.get("classes", []):
            for n in self.tree.body:
                if isinstance(n, ast.ClassDef) and n.name == c:
                    bases = [ast.unparse(b) for b in n.bases]
                    self.classes[c] = bases
            if c not in self.classes:
                raise Unsupported("class %s not found" % c)
        # first register all function infos so calls can be resolved
        order = []
        for f in t["funcs"]:
            node, clsname, clsnode = self.find_def(f["py"])
            info = FnInfo(f["py"], node, clsname, f)
            self.funcs[f["py"]] = info
            order.append(info)
        for info in order:
            if info.opts.get("guards_only"):
                lines += self.emit_guards(info)
            elif info.opts.get("loop"):
                lines += self.emit_loop(info)
            elif info.opts.get("snippet"):
                lines += self.emit_snippet(info)
            elif info.opts.get("straight"):
                lines += self.emit_straight(info)
            else:
                lines += self.emit_function(info)
            lines.append("")
        return "\n".join(lines) + "\n"

    def const(self, node):
        v = node.value
        if v is None:
            return "VNone"
        if v is True:
            return "(VBool true)"
        if v is False:
            return "(VBool false)"
        if isinstance(v, int):
            return "(VInt (%d))" % v
        if isinstance(v, str):
            return "(VStr %s)" % coq_string(v)
        if isinstance(v, float) and self.cur.opts.get("float_as_opaque"):
            return "(VObj \"float\" 0)"
        self.err(node, "constant")

    # ------------------------------------------------------------------ functions
    def emit_function(self, info):
        self.cur = info
        self.tmp = 0
        node = info.node
        self.owned = set()
        self.defined = set(info.params)
        self.nested = {}
        self.used_opaque = set()
        self.opaque_seen = {}
        self.ra_seen = False
        body = [s for s in node.body]
        if body and isinstance(body[0], ast.Expr) and isinstance(body[0].value, ast.Constant) \
                and isinstance(body[0].value.value, str):
            body = body[1:]
        for s in info.opts.get("skip", []):
            n = [b for b in body if ast.unparse(b) == s]
            if len(n) != 1:
                raise Unsupported("%s: skip statement %r found %d times" % (info.qual, s, len(n)))
            body = [b for b in body if ast.unparse(b) != s]
        rc = info.opts.get("returns_call")
        self.rc = rc
        term = self.stmts(body, None)
        for k in list(info.opaque) + list(info.opaque_fun) + list(info.inline) + ["record:" + r for r in info.record_calls]:
            if k not in self.used_opaque:
                raise Unsupported("%s: opaque %r never used" % (info.qual, k))
        ops = info.opaque_params()
        params = ""
        if info.opaque_fun:
            for k, (nm, ar) in info.opaque_fun.items():
                params += " (%s : %s)" % (nm, " -> ".join(["pyval"] * ar + ["res pyval"]))
        if ops:
            params += " (%s : pyval)" % " ".join(ops)
        if info.params:
            params += " (%s : pyval)" % " ".join(mangle(p) for p in info.params)
        rty = "pyval" + " * pyval" * len(info.inout)
        if info.opts.get("returns_apply"):
            if not getattr(self, "ra_seen", False):
                raise Unsupported("%s: returns_apply call not found" % info.qual)
            rty = "pyval * pyval * pyval"
        if rc:
            rty = " * ".join(["pyval"] * (len(rc[1]) + (len(rc[2]) if len(rc) > 2 else 0)))
        head = "Definition"
        if info.fuel:
            head = "Fixpoint"
            params = " (fuel : nat)" + params
            term = "match fuel with\n  | O => Err \"RecursionError\"\n  | S fuel =>\n  %s\n  end" % term
        sig = ", ".join(info.params)
        out = ["(* %s(%s)  inout=%s *)" % (info.qual, sig, info.inout),
               "%s %s%s : res (%s) :=\n  %s." % (head, info.coqname, params, rty, term)]
        return out

    def ret_term(self, value_atom):
        io = "".join(", %s" % mangle(p) for p in self.cur.inout)
        return "Ok (%s%s)" % (value_atom, io) if io else "Ok %s" % value_atom

    # ------------------------------------------------------------------ statements
    def terminates(self, stmts):
        for s in stmts:
            if isinstance(s, (ast.Return, ast.Raise)):
                return True
            if isinstance(s, ast.If) and self.terminates(s.body) and s.orelse and self.terminates(s.orelse):
                return True
            if self.rc and self.is_rc_stmt(s):
                return True
        return False

    def has_return(self, stmts):
        for s in stmts:
            if isinstance(s, ast.Return):
                return True
            if self.rc and self.is_rc_stmt(s):
                return True
            if isinstance(s, ast.If) and (self.has_return(s.body) or self.has_return(s.orelse)):
                return True
            if isinstance(s, ast.For) and self.has_return(s.body):
                self.err(s, "return inside for")
        return False

    def is_rc_stmt(self, s):
        if not isinstance(s, (ast.Expr, ast.Assign)):
            return False
        v = self.rc_unwrap(s.value)
        return isinstance(v, ast.Call) and ast.unparse(v.func) == self.rc[0]

    def rc_unwrap(self, v):
        """opts['rc_wrapper'] = 'self._set_process': the recorded call may be the single argument of that call"""
        w = self.cur.opts.get("rc_wrapper")
        if w and isinstance(v, ast.Call) and ast.unparse(v.func) == w and len(v.args) == 1 and not v.keywords:
            return v.args[0]
        return v

    def assigned(self, stmts):
        out = []

        def add(n):
            if n not in out:
                out.append(n)

        def root(e):
            while isinstance(e, (ast.Subscript, ast.Attribute)):
                e = e.value
            if isinstance(e, ast.Name):
                return e.id
            return None

        for s in stmts:
            if isinstance(s, ast.Assign):
                for tg in s.targets:
                    for e in (tg.elts if isinstance(tg, ast.Tuple) else [tg]):
                        r = root(e)
                        if r:
                            add(r)
                self.expr_mutations(s.value, add)
            elif isinstance(s, ast.AugAssign):
                r = root(s.target)
                if r:
                    add(r)
            elif isinstance(s, ast.Delete):
                for tg in s.targets:
                    r = root(tg)
                    if r:
                        add(r)
            elif isinstance(s, ast.Expr):
                self.expr_mutations(s.value, add)
            elif isinstance(s, ast.If):
                for n in self.assigned(s.body) + self.assigned(s.orelse):
                    add(n)
            elif isinstance(s, ast.For):
                for n in self.assigned(s.body):
                    add(n)
            elif isinstance(s, ast.Try):
                for part in [s.body, s.orelse] + [h.body for h in s.handlers]:
                    for n in self.assigned(part):
                        add(n)
            elif isinstance(s, (ast.Pass, ast.Return, ast.Raise, ast.Import, ast.ImportFrom)):
                pass
            else:
                self.err(s, "statement kind in assigned()")
        return out

    def expr_mutations(self, e, add):
        for n in ast.walk(e):
            if isinstance(n, ast.Call) and isinstance(n.func, ast.Attribute) \
                    and n.func.attr in ("update", "append", "pop", "insert"):
                r = n.func.value
                while isinstance(r, (ast.Subscript, ast.Attribute)):
                    r = r.value
                if isinstance(r, ast.Name):
                    add(r.id)
            if isinstance(n, ast.Call):
                callee = self.resolve_callee(n, quiet=True)
                if callee is not None:
                    for p in callee.inout:
                        arg = self.arg_for(n, callee, p, quiet=True)
                        if isinstance(arg, ast.Name):
                            add(arg.id)

    def stmts(self, body, tail):
        """Translate a statement list; `tail` is the Gallina term for falling off the end
        (None: falling off the end returns None like Python)."""
        if not body:
            return tail if tail is not None else self.ret_term("VNone")
        s, rest = body[0], body[1:]
        k = lambda: self.stmts(rest, tail)
        if isinstance(s, (ast.Pass, ast.Import, ast.ImportFrom)):
            return k()
        if isinstance(s, ast.Expr) and isinstance(s.value, ast.Constant) and isinstance(s.value.value, str):
            return k()
        if self.rc and self.is_rc_stmt(s):
            call = self.rc_unwrap(s.value)
            kws = {kw.arg: kw.value for kw in call.keywords}
            if call.args:
                self.err(s, "returns_call with positional args")
            binds, atoms = [], []
            for name in self.rc[1]:
                if name not in kws:
                    self.err(s, "returns_call: keyword %s missing" % name)
                b, a = self.atom(kws[name])
                binds += b
                atoms.append(a)
            for name in (self.rc[2] if len(self.rc) > 2 else []):
                if name not in self.defined:
                    self.err(s, "returns_call: extra variable %s undefined" % name)
                atoms.append(mangle(name))
            return self.wrap(binds, "Ok (%s)" % ", ".join(atoms))
        ra = self.cur.opts.get("returns_apply")
        if ra and isinstance(s, ast.Return) and isinstance(s.value, ast.Call) and ast.unparse(s.value.func) == ra:
            call = s.value
            plain = [a for a in call.args if not isinstance(a, ast.Starred)]
            star = [a.value for a in call.args if isinstance(a, ast.Starred)]
            dstar = [kw.value for kw in call.keywords if kw.arg is None]
            if len(plain) != 1 or len(star) != 1 or len(dstar) != 1 or len(call.keywords) != 1 \
                    or not isinstance(call.args[0], ast.expr) or isinstance(call.args[0], ast.Starred):
                self.err(s, "returns_apply expects f(FN, *ARGS, **KWARGS)")
            binds, atoms = [], []
            for a in (plain[0], star[0], dstar[0]):
                b, at = self.atom(a)
                binds += b
                atoms.append(at)
            self.ra_seen = True
            return self.wrap(binds, "Ok (%s)" % ", ".join(atoms))
        if isinstance(s, ast.Return):
            if ra:
                self.err(s, "returns_apply: unexpected return form")
            if s.value is None:
                return self.ret_term("VNone")
            b, a = self.atom(s.value)
            return self.wrap(b, self.ret_term(a))
        if isinstance(s, ast.Raise):
            exc = s.exc
            if isinstance(exc, ast.Call) and isinstance(exc.func, ast.Name):
                return 'Err "%s"' % exc.func.id
            if isinstance(exc, ast.Name) and exc.id not in self.defined:
                return 'Err "%s"' % exc.id
            if exc is not None:
                # raise <exception object>: objects are represented by their class name (PyLib.py_raise)
                b, a = self.atom(exc)
                return self.wrap(b, "py_raise %s" % a)
            self.err(s, "raise form")
        if isinstance(s, ast.Assign):
            if len(s.targets) != 1:
                self.err(s, "chained assignment")
            tg = s.targets[0]
            if isinstance(tg, ast.Tuple):
                b, a = self.atom(s.value)
                if len(tg.elts) != 2:
                    self.err(s, "tuple target arity")
                x1, x2 = self.fresh(), self.fresh()
                inner = self.assign_to(tg.elts[0], x1, lambda: self.assign_to(tg.elts[1], x2, k))
                return self.wrap(b, "'(%s, %s) <- py_unpack2 %s ;;\n  %s" % (x1, x2, a, inner))
            if isinstance(tg, ast.Name):
                if isinstance(s.value, ast.Call):
                    b, a = self.atom(s.value)
                    self.note_assign(tg.id, s.value)
                    return self.wrap(b, "%s <- Ok %s ;;\n  %s" % (mangle(tg.id), a, k()))
                term = self.expr(s.value)
                self.note_assign(tg.id, s.value)
                return "%s <- (%s) ;;\n  %s" % (mangle(tg.id), term, k())
            b, a = self.atom(s.value)
            return self.wrap(b, self.assign_to(tg, a, k))
        if isinstance(s, ast.AugAssign):
            if not isinstance(s.op, ast.Add):
                self.err(s, "augassign op")
            b, a = self.atom(s.value)
            if isinstance(s.target, ast.Name):
                nm = s.target.id
                if nm not in self.defined:
                    self.err(s, "augassign to undefined")
                if not (isinstance(s.value, ast.Constant) and isinstance(s.value.value, int)):
                    self.check_mutable(s, s.target)
                return self.wrap(b, "%s <- py_add %s %s ;;\n  %s" % (mangle(nm), mangle(nm), a, k()))
            self.err(s, "augassign target")
        if isinstance(s, ast.Delete):
            if len(s.targets) != 1 or not isinstance(s.targets[0], ast.Subscript):
                self.err(s, "del form")
            tg = s.targets[0]
            self.check_mutable(s, tg.value)
            bk, ak = self.atom(tg.slice)
            bc, ac = self.atom(tg.value)
            x = self.fresh()
            return self.wrap(bk + bc, "%s <- py_delitem %s %s ;;\n  %s" % (
                x, ac, ak, self.assign_to(tg.value, x, k)))
        if isinstance(s, ast.Expr):
            v = s.value
            if isinstance(v, ast.Call) and isinstance(v.func, ast.Attribute) and v.func.attr in ("update", "append"):
                obj = v.func.value
                self.check_mutable(s, obj)
                if len(v.args) != 1 or v.keywords:
                    self.err(s, "update/append args")
                ba, aa = self.atom(v.args[0])
                bo, ao = self.atom(obj)
                x = self.fresh()
                if v.func.attr == "update":
                    op = "py_dict_update %s %s" % (ao, aa)
                else:
                    op = "py_add %s (VList [%s])" % (ao, aa)
                return self.wrap(ba + bo, "%s <- %s ;;\n  %s" % (x, op, self.assign_to(obj, x, k)))
            if isinstance(v, ast.Call):
                b, a = self.atom(v)
                return self.wrap(b, k())
            term = self.expr(v)
            return "_ <- (%s) ;;\n  %s" % (term, k())
        if isinstance(s, ast.If):
            return self.if_stmt(s, rest, tail)
        if isinstance(s, ast.For):
            return self.for_stmt(s, rest, tail)
        if isinstance(s, ast.Try):
            return self.try_stmt(s, rest, tail)
        if isinstance(s, ast.FunctionDef):
            self.err(s, "nested def (declare it as its own target)")
        self.err(s, "statement")

    def note_assign(self, name, value):
        self.defined.add(name)
        if self.is_fresh(value):
            self.owned.add(name)
        else:
            self.owned.discard(name)

    def is_fresh(self, e):
        if isinstance(e, (ast.List, ast.Dict, ast.ListComp, ast.DictComp, ast.Constant, ast.Tuple,
                          ast.BinOp, ast.Compare, ast.BoolOp, ast.UnaryOp)):
            return True
        if isinstance(e, ast.Call):
            if isinstance(e.func, ast.Attribute) and e.func.attr == "copy":
                return True
            if isinstance(e.func, ast.Attribute) and e.func.attr in ("get", "pop"):
                return False
            if ast.unparse(e) in self.cur.opaque or ast.unparse(e.func) in self.cur.opaque_fun:
                return True
            callee = self.resolve_callee(e, quiet=True)
            if callee is not None:
                return bool(callee.opts.get("returns_fresh", False))
            if isinstance(e.func, ast.Name) and e.func.id in ("str", "len", "int", "sum", "all"):
                return True
        return False

    def check_mutable(self, s, obj):
        r = obj
        while isinstance(r, (ast.Subscript, ast.Attribute)):
            r = r.value
        if not isinstance(r, ast.Name):
            self.err(s, "mutation of a non-variable")
        if r.id in self.owned or r.id in self.cur.inout:
            return
        self.err(s, "in-place mutation of %r, which this function does not own "
                    "(aliasing is not modelled; declare it inout or copy it)" % r.id)

    def assign_to(self, tg, atom, k):
        """store pure atom into target (Name / Subscript / Attribute chain), then continue"""
        if isinstance(tg, ast.Name):
            self.defined.add(tg.id)
            return "%s <- Ok %s ;;\n  %s" % (mangle(tg.id), atom, k())
        if isinstance(tg, ast.Subscript):
            self.check_mutable(tg, tg.value)
            bk, ak = self.atom(tg.slice)
            bc, ac = self.atom(tg.value)
            x = self.fresh()
            return self.wrap(bk + bc, "%s <- py_setitem %s %s %s ;;\n  %s" % (
                x, ac, ak, atom, self.assign_to(tg.value, x, k)))
        if isinstance(tg, ast.Attribute):
            self.check_mutable(tg, tg.value)
            bc, ac = self.atom(tg.value)
            x = self.fresh()
            return self.wrap(bc, "%s <- py_setattr %s %s %s ;;\n  %s" % (
                x, ac, coq_string(tg.attr), atom, self.assign_to(tg.value, x, k)))
        self.err(tg, "assignment target")

    def state_tuple(self, names):
        if not names:
            return "tt", "_"
        if len(names) == 1:
            return mangle(names[0]), mangle(names[0])
        t = "(" + ", ".join(mangle(n) for n in names) + ")"
        return t, "'" + t

    def if_stmt(self, s, rest, tail):
        bc, ac = self.atom(s.test)
        saved_owned, saved_def = set(self.owned), set(self.defined)
        if self.has_return(s.body) or self.has_return(s.orelse):
            # duplicate the continuation into both branches
            t1 = self.stmts(s.body + rest, tail)
            self.owned, self.defined = set(saved_owned), set(saved_def)
            t2 = self.stmts(s.orelse + rest, tail)
            self.owned &= saved_owned
            return self.wrap(bc, "if truthy %s then (\n  %s)\n  else (\n  %s)" % (ac, t1, t2))
        a1, a2 = self.assigned(s.body), self.assigned(s.orelse)
        names = []
        for n in a1 + a2:
            if n not in names:
                names.append(n)
        local = []
        for n in names:
            if n not in saved_def and not (n in a1 and n in a2):
                # defined in one branch only: it is local to that branch; a later use is then an
                # "unknown name" translation failure (Python would raise NameError on some path)
                if not (n in a1 and self.terminates(s.orelse)) and not (n in a2 and self.terminates(s.body)):
                    local.append(n)
        names = [n for n in names if n not in local]
        tup, pat = self.state_tuple(names)
        t1 = self.stmts(s.body, "Ok %s" % tup)
        o1 = set(self.owned)
        self.owned, self.defined = set(saved_owned), set(saved_def)
        t2 = self.stmts(s.orelse, "Ok %s" % tup)
        o2 = set(self.owned)
        self.owned = o1 & o2
        self.defined = (saved_def | set(names)) - set(local)
        k = self.stmts(rest, tail)
        return self.wrap(bc, "%s <- (if truthy %s then (\n  %s)\n  else (\n  %s)) ;;\n  %s" % (pat, ac, t1, t2, k))

    def try_stmt(self, s, rest, tail):
        """try: B  except Exception as e: H  [else: E]   (single handler, no finally, no return inside).
        An exception of the model is `Err cls`; the handler sees the exception object as VStr cls."""
        if s.finalbody or len(s.handlers) != 1:
            self.err(s, "try form")
        h = s.handlers[0]
        if not (isinstance(h.type, ast.Name) and h.type.id == "Exception"):
            self.err(s, "except clause must be `except Exception [as name]`")
        if self.has_return(s.body) or self.has_return(h.body) or self.has_return(s.orelse):
            self.err(s, "return inside try")
        saved_def, saved_owned = set(self.defined), set(self.owned)
        ab = self.assigned(s.body)
        names = []
        for n in ab + self.assigned(h.body) + self.assigned(s.orelse):
            if n not in names:
                names.append(n)
        outer = [n for n in names if n in saved_def or (n in self.assigned(h.body) and (n in ab or n in self.assigned(s.orelse)))]
        # variables visible after the statement: those defined before, or defined on both paths
        tupb, patb = self.state_tuple(ab)
        body = self.stmts(s.body, "Ok %s" % tupb)
        self.defined = saved_def | set(ab)
        tupo, pato = self.state_tuple(outer)
        els = self.stmts(s.orelse, "Ok %s" % tupo)
        self.defined = set(saved_def)
        self.owned = set(saved_owned)
        ename = mangle(h.name) if h.name else "_"
        if h.name:
            self.defined.add(h.name)
        for n in outer:
            if n not in self.defined and n not in self.assigned(h.body):
                self.err(s, "variable %s undefined on the exception path" % n)
        hand = self.stmts(h.body, "Ok %s" % tupo)
        self.defined = saved_def | set(outer)
        self.owned = saved_owned - set(names)
        k = self.stmts(rest, tail)
        return ("%s <- (match (\n  %s) with\n  | Ok %s => (\n  %s)\n  | Err exn_cls => (%s <- Ok (VStr exn_cls) ;;\n  %s)\n  end) ;;\n  %s"
                % (pato, body, patb.lstrip("'") if ab else "_", els, ename, hand, k))

    def for_stmt(self, s, rest, tail):
        if s.orelse:
            self.err(s, "for-else")
        bi, ai = self.atom(s.iter)
        names = [n for n in self.assigned(s.body) if n in self.defined]
        tup, pat = self.state_tuple(names)
        x = self.fresh()
        lam_head, unpack = self.loop_target(s.target, x)
        saved_def = set(self.defined)
        body = self.stmts(s.body, "Ok %s" % tup)
        self.defined = saved_def
        l = self.fresh()
        k = self.stmts(rest, tail)
        spat = pat if names else "_"
        fpat = ("%s" % pat.lstrip("'")) if names else "_"
        return self.wrap(bi, "%s <- py_iter %s ;;\n  %s <- foldM (fun %s %s => %s%s) %s %s ;;\n  %s" % (
            l, ai, spat, ("'" + fpat) if len(names) > 1 else fpat, x, unpack, body, l, tup, k))

    def loop_target(self, tg, x):
        if isinstance(tg, ast.Name):
            self.defined.add(tg.id)
            return x, "%s <- Ok %s ;; " % (mangle(tg.id), x)
        if isinstance(tg, ast.Tuple) and len(tg.elts) == 2 and all(isinstance(e, ast.Name) for e in tg.elts):
            for e in tg.elts:
                self.defined.add(e.id)
            return x, "'(%s, %s) <- py_unpack2 %s ;; " % (mangle(tg.elts[0].id), mangle(tg.elts[1].id), x)
        self.err(tg, "loop target")

    # ------------------------------------------------------------------ expressions
    def wrap(self, binds, term):
        out = term
        for name, t in reversed(binds):
            out = "%s <- (%s) ;;\n  %s" % (name, t, out)
        return out

    def is_atomic(self, e):
        if isinstance(e, ast.Constant):
            return True
        if isinstance(e, ast.Name):
            return True
        if isinstance(e, (ast.List, ast.Tuple)):
            return all(self.is_atomic(x) for x in e.elts)
        return False

    def atom(self, e):
        """returns (binds, pure Gallina pyval term)"""
        key = ast.unparse(e)
        if key in self.cur.inline:
            self.used_opaque.add(key)
            return [], self.cur.inline[key]
        if key in self.cur.opaque:
            self.used_opaque.add(key)
            return [], self.cur.opaque[key]
        if isinstance(e, ast.Constant):
            return [], self.const(e)
        if isinstance(e, ast.Name):
            if e.id in self.defined:
                return [], mangle(e.id)
            if e.id in self.consts:
                return [], "c_" + e.id
            if e.id in self.cur.opts.get("names", []):
                return [], "(VStr %s)" % coq_string(e.id)
            self.err(e, "unknown name %s" % e.id)
        if isinstance(e, (ast.List, ast.Tuple)):
            binds, atoms = [], []
            for x in e.elts:
                b, a = self.atom(x)
                binds += b
                atoms.append(a)
            ctor = "VList" if isinstance(e, ast.List) else "VTuple"
            return binds, "(%s [%s])" % (ctor, "; ".join(atoms))
        if isinstance(e, ast.Dict):
            binds, pairs = [], []
            for kx, vx in zip(e.keys, e.values):
                if kx is None:
                    self.err(e, "dict unpacking")
                bk, ak = self.atom(kx)
                bv, av = self.atom(vx)
                binds += bk + bv
                pairs.append("(%s, %s)" % (ak, av))
            return binds, "(py_mkdict [%s])" % "; ".join(pairs)
        if isinstance(e, ast.Call) and isinstance(e.func, ast.Attribute) and e.func.attr == "pop" \
                and len(e.args) == 1 and not e.keywords:
            # d.pop(k): value and removal as sequential binds so that the rebinding of d scopes over what follows
            recv = e.func.value
            if not isinstance(recv, ast.Name):
                self.err(e, ".pop() receiver must be a variable")
            self.check_mutable(e, recv)
            bk, ak = self.atom(e.args[0])
            x, y = self.fresh(), self.fresh()
            nm = mangle(recv.id)
            return bk + [(x, "py_getitem %s %s" % (nm, ak)), (y, "py_delitem %s %s" % (nm, ak)), (nm, "Ok %s" % y)], x
        if isinstance(e, ast.Call) and isinstance(e.func, ast.Attribute) and e.func.attr in METH_PURE \
                and len(e.args) == METH_PURE[e.func.attr][1] and not e.keywords \
                and ast.unparse(e.func) not in self.cur.opaque_fun:
            # flattened so that rebinding binds of the receiver (e.g. d.pop(k).copy()) stay at statement level
            binds, atoms = self.atom(e.func.value)
            atoms = [atoms]
            for a in e.args:
                b, at = self.atom(a)
                binds = binds + b
                atoms.append(at)
            x = self.fresh()
            return binds + [(x, "%s %s" % (METH_PURE[e.func.attr][0], " ".join(atoms)))], x
        if isinstance(e, ast.Call):
            callee = self.resolve_callee(e, quiet=True)
            ctor = isinstance(e.func, ast.Name) and callee is not None and callee.qual.endswith(".__init__")
            if callee is not None and callee.inout and not ctor and ast.unparse(e.func) not in self.cur.opaque_fun:
                self._inout_ok = True
                try:
                    return self.call(e)
                finally:
                    self._inout_ok = False
        x = self.fresh()
        return [(x, self.expr(e))], x

    def expr(self, e):
        """returns a self-contained Gallina term of type res pyval"""
        key = ast.unparse(e)
        if key in self.cur.inline:
            self.used_opaque.add(key)
            return "Ok %s" % self.cur.inline[key]
        if key in self.cur.opaque:
            self.used_opaque.add(key)
            return "Ok %s" % self.cur.opaque[key]
        if isinstance(e, (ast.Constant, ast.Name, ast.List, ast.Tuple, ast.Dict)):
            b, a = self.atom(e)
            return self.wrap(b, "Ok %s" % a)
        if isinstance(e, ast.BinOp):
            if isinstance(e.op, ast.Add):
                fn = "py_add"
            elif isinstance(e.op, ast.Sub):
                fn = "py_sub"
            elif isinstance(e.op, ast.Mult):
                fn = "py_mul"
            else:
                self.err(e, "binary operator")
            bl, al = self.atom(e.left)
            br, ar = self.atom(e.right)
            return self.wrap(bl + br, "%s %s %s" % (fn, al, ar))
        if isinstance(e, ast.UnaryOp):
            if isinstance(e.op, ast.Not):
                b, a = self.atom(e.operand)
                return self.wrap(b, "Ok (VBool (negb (truthy %s)))" % a)
            if isinstance(e.op, ast.USub) and isinstance(e.operand, ast.Constant) and isinstance(e.operand.value, int):
                return "Ok (VInt (%d))" % (-e.operand.value)
            self.err(e, "unary operator")
        if isinstance(e, ast.BoolOp):
            vals = e.values
            first = self.expr(vals[0])
            restexpr = vals[1] if len(vals) == 2 else ast.BoolOp(op=e.op, values=vals[1:])
            x = self.fresh()
            r = self.expr(restexpr)
            if isinstance(e.op, ast.And):
                return "%s <- (%s) ;;\n  (if truthy %s then (%s) else Ok %s)" % (x, first, x, r, x)
            return "%s <- (%s) ;;\n  (if truthy %s then Ok %s else (%s))" % (x, first, x, x, r)
        if isinstance(e, ast.Compare):
            if len(e.ops) != 1:
                self.err(e, "chained comparison")
            op, rhs = e.ops[0], e.comparators[0]
            if isinstance(op, (ast.Is, ast.IsNot)):
                if not (isinstance(rhs, ast.Constant) and rhs.value is None):
                    self.err(e, "`is` with non-None")
                b, a = self.atom(e.left)
                t = "is_none %s" % a
                if isinstance(op, ast.IsNot):
                    t = "negb (%s)" % t
                return self.wrap(b, "Ok (VBool (%s))" % t)
            if type(op) not in CMP:
                self.err(e, "comparison operator")
            bl, al = self.atom(e.left)
            br, ar = self.atom(rhs)
            return self.wrap(bl + br, "%s %s %s" % (CMP[type(op)], al, ar))
        if isinstance(e, ast.IfExp):
            bc, ac = self.atom(e.test)
            return self.wrap(bc, "(if truthy %s then (%s) else (%s))" % (ac, self.expr(e.body), self.expr(e.orelse)))
        if isinstance(e, ast.Subscript):
            if isinstance(e.slice, ast.Slice):
                sl = e.slice
                if sl.upper is not None or sl.step is not None or sl.lower is None:
                    self.err(e, "slice form (only a[n:])")
                bc, ac = self.atom(e.value)
                bk, ak = self.atom(sl.lower)
                return self.wrap(bc + bk, "py_slice_from %s %s" % (ac, ak))
            bc, ac = self.atom(e.value)
            bk, ak = self.atom(e.slice)
            return self.wrap(bc + bk, "py_getitem %s %s" % (ac, ak))
        if isinstance(e, ast.Attribute):
            if isinstance(e.value, ast.Name) and e.value.id == "self" and "self" in self.defined:
                return "py_getattr %s %s" % (mangle("self"), coq_string(e.attr))
            self.err(e, "attribute (declare it opaque)")
        if isinstance(e, (ast.ListComp, ast.DictComp)):
            return self.comprehension(e)
        if isinstance(e, ast.Call):
            return self.call(e)
        self.err(e, "expression")

    def comprehension(self, e):
        if len(e.generators) != 1:
            self.err(e, "comprehension generators")
        g = e.generators[0]
        if g.is_async:
            self.err(e, "async")
        bi, ai = self.atom(g.iter)
        x = self.fresh()
        saved = set(self.defined)
        _, unpack = self.loop_target(g.target, x)
        l = self.fresh()
        out = "%s <- py_iter %s ;;\n  " % (l, ai)
        cur = l
        for cond in g.ifs:
            l2 = self.fresh()
            c = self.fresh()
            out += "%s <- filterM (fun %s => %s%s <- (%s) ;; Ok (truthy %s)) %s ;;\n  " % (
                l2, x, unpack, c, self.expr(cond), c, cur)
            cur = l2
        r = self.fresh()
        if isinstance(e, ast.ListComp):
            out += "%s <- mapM (fun %s => %s%s) %s ;;\n  Ok (VList %s)" % (r, x, unpack, self.expr(e.elt), cur, r)
        else:
            bk, ak = self.atom(e.key)
            bv, av = self.atom(e.value)
            inner = self.wrap(bk + bv, "Ok (%s, %s)" % (ak, av))
            out += "%s <- mapM (fun %s => %s%s) %s ;;\n  Ok (py_mkdict %s)" % (r, x, unpack, inner, cur, r)
        self.defined = saved
        return self.wrap(bi, "(" + out + ")")

    # ------------------------------------------------------------------ calls
    def resolve_callee(self, call, quiet=False):
        f = call.func
        name = None
        if isinstance(f, ast.Name):
            name = self.cur.aliases.get(f.id, f.id)
            if name in self.funcs:
                return self.funcs[name]
            if name in self.known:
                return self.known[name]
            if name + ".__init__" in self.funcs:
                return self.funcs[name + ".__init__"]
            if name + ".__init__" in self.known:
                return self.known[name + ".__init__"]
        if isinstance(f, ast.Attribute):
            # self.m(...) / super().m(...)
            if isinstance(f.value, ast.Name) and f.value.id == "self" and self.cur.cls:
                return self.lookup_method(self.cur.cls, f.attr)
            if isinstance(f.value, ast.Call) and isinstance(f.value.func, ast.Name) and f.value.func.id == "super" \
                    and self.cur.cls:
                for b in self.classes.get(self.cur.cls, []):
                    m = self.lookup_method(b, f.attr)
                    if m is not None:
                        return m
        return None

    def lookup_method(self, cls, meth):
        q = cls + "." + meth
        if q in self.funcs:
            return self.funcs[q]
        if q in self.known:
            return self.known[q]
        for b in self.classes.get(cls, []):
            m = self.lookup_method(b, meth)
            if m is not None:
                return m
        return None

    def arg_for(self, call, callee, pname, quiet=False):
        params = callee.params
        is_method_call = callee.cls is not None and params and params[0] == "self"
        pos = list(call.args)
        plist = params[1:] if is_method_call else params
        kws = {kw.arg: kw.value for kw in call.keywords}
        if None in kws:
            if quiet:
                return None
            self.err(call, "**kwargs at call site")
        if pname == "self":
            return ast.Name(id="self", ctx=ast.Load())
        if pname in kws:
            return kws[pname]
        if pname in plist:
            i = plist.index(pname)
            if i < len(pos):
                return pos[i]
        if pname in callee.defaults:
            return callee.defaults[pname]
        if quiet:
            return None
        self.err(call, "missing argument %s for %s" % (pname, callee.qual))

    def call(self, e):
        f = e.func
        key = ast.unparse(f)
        if key in self.cur.opaque_fun:
            self.used_opaque.add(key)
            nm, ar = self.cur.opaque_fun[key]
            args = list(e.args) + [kw.value for kw in e.keywords]
            if len(args) != ar:
                self.err(e, "opaque function arity")
            binds, atoms = [], []
            for a in args:
                b, at = self.atom(a)
                binds += b
                atoms.append(at)
            return self.wrap(binds, "%s %s" % (nm, " ".join(atoms)))
        if isinstance(f, ast.Name) and f.id in self.cur.record_calls:
            if e.args or any(kw.arg is None for kw in e.keywords):
                self.err(e, "recorded constructor call must use keyword arguments only")
            binds, pairs = [], []
            for kw in e.keywords:
                b, a = self.atom(kw.value)
                binds += b
                pairs.append("(VStr %s, %s)" % (coq_string(kw.arg), a))
            self.used_opaque.add("record:" + f.id)
            return self.wrap(binds, "Ok (VTuple [VStr %s; py_mkdict [%s]])" % (coq_string(f.id), "; ".join(pairs)))
        callee = self.resolve_callee(e)
        if callee is not None:
            ctor = isinstance(f, ast.Name) and callee.qual.endswith(".__init__")
            kwnames = [kw.arg for kw in e.keywords]
            plist = callee.params
            for kn in kwnames:
                if kn is None or kn not in plist:
                    self.err(e, "unknown keyword %s" % kn)
            binds, atoms = [], []
            for p in callee.params:
                if ctor and p == "self":
                    atoms.append("(VDict [])")
                    continue
                a = self.arg_for(e, callee, p)
                if p in callee.defaults and a is callee.defaults[p]:
                    if not isinstance(a, ast.Constant) and not (isinstance(a, (ast.List, ast.Dict)) and not ast.unparse(a).strip("[]{}")):
                        self.err(e, "non-literal default for %s" % p)
                b, at = self.atom(a)
                binds += b
                atoms.append(at)
            pre = ""
            for k2, v2 in callee.opaque_fun.items():
                pre += " " + v2[0]
                # the callee's function parameters become parameters of the caller too
                if v2[0] not in [x[0] for x in self.cur.opaque_fun.values()]:
                    self.cur.opaque_fun["inherit:" + v2[0]] = v2
                for k3, v3 in self.cur.opaque_fun.items():
                    if v3[0] == v2[0]:
                        self.used_opaque.add(k3)
            for v2 in callee.opaque_params():
                pre += " " + v2
                if v2 not in self.cur.opaque.values() and v2 not in self.cur.inherited:
                    self.cur.inherited.append(v2)
            if callee.fuel:
                pre = " fuel" + pre
            term = "%s%s %s" % (callee.coqname, pre, " ".join(atoms))
            if ctor:
                if callee.inout != ["self"]:
                    self.err(e, "constructor must have inout=[self]")
                x, y = self.fresh(), self.fresh()
                return self.wrap(binds, "'(%s, %s) <- (%s) ;;\n  Ok %s" % (x, y, term, y))
            if callee.inout:
                if not getattr(self, "_inout_ok", False):
                    self.err(e, "call with inout parameters in a nested expression position")
                # rebinding of the caller's variables that were passed for inout params;
                # returned as sequential binds so the rebinding scopes over what follows
                x = self.fresh()
                pats = [x]
                post = []
                for p in callee.inout:
                    a = self.arg_for(e, callee, p)
                    y = self.fresh()
                    pats.append(y)
                    if isinstance(a, ast.Name):
                        self.check_mutable(e, a)
                        post.append((mangle(a.id), "Ok %s" % y))
                    elif self.is_fresh(a):
                        pass
                    else:
                        self.err(e, "inout argument must be a variable or a fresh object")
                return binds + [("'(%s)" % ", ".join(pats), term)] + post, x
            return self.wrap(binds, term)
        if isinstance(f, ast.Name):
            nm = f.id
            if nm in ("str", "len", "sum", "all") and len(e.args) == 1 and not e.keywords:
                b, a = self.atom(e.args[0])
                return self.wrap(b, "py_%s %s" % (nm, a))
            if nm == "int" and len(e.args) == 1 and isinstance(e.args[0], ast.BinOp) and isinstance(e.args[0].op, ast.Div):
                bl, al = self.atom(e.args[0].left)
                br, ar = self.atom(e.args[0].right)
                return self.wrap(bl + br, "py_int_truediv %s %s" % (al, ar))
            if nm == "isinstance" and len(e.args) == 2 and isinstance(e.args[1], ast.Name):
                b, a = self.atom(e.args[0])
                c = e.args[1].id
                if c == "list":
                    return self.wrap(b, "Ok (VBool (py_isinstance_list %s))" % a)
                if c == "dict":
                    return self.wrap(b, "Ok (VBool (py_isinstance_dict %s))" % a)
                if c in self.cur.opts.get("object_classes", []):
                    return self.wrap(b, "Ok (VBool (py_isinstance_obj %s %s))" % (coq_string(c), a))
                self.err(e, "isinstance class")
        if isinstance(f, ast.Attribute):
            m = f.attr
            if m in METH_PURE and len(e.args) == METH_PURE[m][1] and not e.keywords:
                bo, ao = self.atom(f.value)
                binds, atoms = bo, [ao]
                for a in e.args:
                    b, at = self.atom(a)
                    binds += b
                    atoms.append(at)
                return self.wrap(binds, "%s %s" % (METH_PURE[m][0], " ".join(atoms)))
            if m == "get" and len(e.args) in (1, 2) and not e.keywords:
                bo, ao = self.atom(f.value)
                bk, ak = self.atom(e.args[0])
                if len(e.args) == 2:
                    bd, ad = self.atom(e.args[1])
                else:
                    bd, ad = [], "VNone"
                return self.wrap(bo + bk + bd, "py_dict_get %s %s %s" % (ao, ak, ad))
            if m == "pop" and len(e.args) == 1 and not e.keywords:
                self.err(e, ".pop() in a nested expression position (its rebinding would be lost)")
        self.err(e, "call")

    # ------------------------------------------------------------------ snippets
    def emit_snippet(self, info):
        """opts['snippet'] = dict(first=<statement text>, last=<statement text>, params=[...], returns=[...]):
        the consecutive statements from `first` to `last` (found exactly once, in one statement
        list anywhere inside the function) become a function of `params` returning the tuple of `returns`."""
        sn = info.opts["snippet"]
        found = []
        for node in ast.walk(info.node):
            for fld in ("body", "orelse"):
                seq = getattr(node, fld, None)
                if isinstance(seq, list):
                    texts = [ast.unparse(x) for x in seq]
                    if sn["first"] in texts:
                        i = texts.index(sn["first"])
                        if sn["last"] in texts[i:]:
                            j = i + texts[i:].index(sn["last"])
                            found.append(seq[i:j + 1])
        if len(found) != 1:
            raise Unsupported("%s: snippet found %d times" % (info.qual, len(found)))
        src = "def snip__(%s):\n    pass\n    return (%s)\n" % (", ".join(sn["params"]), ", ".join(sn["returns"]) + ("," if len(sn["returns"]) == 1 else ""))
        syn = ast.parse(src).body[0]
        syn.body = found[0] + syn.body[1:]
        ast.fix_missing_locations(syn)
        opts = dict(info.opts)
        opts.pop("snippet")
        syn_info = FnInfo(info.qual, syn, None, opts)
        syn_info.coqname = info.coqname
        return self.emit_function(syn_info)

    # ------------------------------------------------------------------ request/reply loops
    def emit_loop(self, info):
        """opts['loop']: dict(params=[...], state=[...], init={var: 'source of initial value'},
        send='interface_send', send_kw='result_dict', recv='interface_receive(socket=socket)', recv_var=...,
        ignore=[call strings], apply=('call_funct', ...)).
        The single `while True:` body of the function is rewritten into a pure step function
        returning (state..., replies, stop)."""
        lo = info.opts["loop"]
        fn = info.node
        whiles = [n for n in fn.body if isinstance(n, ast.While)]
        if len(whiles) != 1 or len([n for n in ast.walk(fn) if isinstance(n, ast.While)]) != 1:
            raise Unsupported("%s: expected exactly one top-level while loop" % info.qual)
        w = whiles[0]
        if not (isinstance(w.test, ast.Constant) and w.test.value is True) or w.orelse:
            raise Unsupported("%s: loop is not `while True:`" % info.qual)
        if fn.body.index(w) != len(fn.body) - 1:
            raise Unsupported("%s: statements after the loop" % info.qual)
        pre = [ast.unparse(n) for n in fn.body[:fn.body.index(w)]]
        for var, src in lo.get("init", {}).items():
            if pre.count("%s = %s" % (var, src)) != 1:
                raise Unsupported("%s: initialisation `%s = %s` not found before the loop" % (info.qual, var, src))
        tr = self

        class Rw(ast.NodeTransformer):
            def visit_Break(self, node):
                return ast.copy_location(ast.Assign(targets=[ast.Name(id="stop__", ctx=ast.Store())],
                                                    value=ast.Constant(value=True)), node)

            def visit_Expr(self, node):
                v = node.value
                if isinstance(v, ast.Call):
                    f = ast.unparse(v.func)
                    if f == lo["send"]:
                        kws = {k.arg: k.value for k in v.keywords}
                        if v.args or lo["send_kw"] not in kws:
                            raise Unsupported("%s: send call form: %s" % (info.qual, ast.unparse(v)))
                        return ast.copy_location(ast.AugAssign(
                            target=ast.Name(id="replies__", ctx=ast.Store()), op=ast.Add(),
                            value=ast.List(elts=[self.visit(kws[lo["send_kw"]])], ctx=ast.Load())), node)
                    if ast.unparse(v) in lo.get("ignore", []):
                        return ast.copy_location(ast.Pass(), node)
                return self.generic_visit(node)

            def visit_Call(self, node):
                node = self.generic_visit(node)
                txt = ast.unparse(node)
                if txt == lo.get("recv"):
                    return ast.Name(id=lo["recv_param"], ctx=ast.Load())
                f = ast.unparse(node.func)
                if f == "call_funct":
                    kws = {k.arg: k.value for k in node.keywords}
                    if node.args or set(kws) - {"input_dict", "funct", "memory"} or "input_dict" not in kws \
                            or not (isinstance(kws.get("funct"), ast.Constant) and kws["funct"].value is None):
                        raise Unsupported("%s: call_funct form: %s" % (info.qual, txt))
                    return ast.Call(func=ast.Name(id="apply__", ctx=ast.Load()),
                                    args=[kws.get("memory", ast.Constant(value=None)), kws["input_dict"]], keywords=[])
                for pat, (nm, drop) in lo.get("collectives", {}).items():
                    if f == pat:
                        for k in node.keywords:
                            if k.arg not in drop or ast.unparse(k.value) != drop[k.arg]:
                                raise Unsupported("%s: collective form: %s" % (info.qual, txt))
                        return ast.Call(func=ast.Name(id=nm, ctx=ast.Load()), args=node.args, keywords=[])
                return node

        body = [Rw().visit(n) for n in w.body]
        body = [n for n in body if n is not None]
        if lo.get("drop_first_recv"):
            first = ast.unparse(body[0])
            if first != "%s = %s" % (lo["drop_first_recv"], lo["recv_param"]):
                raise Unsupported("%s: loop does not start with the receive: %s" % (info.qual, first))
        # `break` (now stop__ = True) must be the last statement of its branch
        for n in ast.walk(ast.Module(body=body, type_ignores=[])):
            for fld in ("body", "orelse"):
                seq = getattr(n, fld, None)
                if isinstance(seq, list):
                    for i, st in enumerate(seq):
                        if isinstance(st, ast.Assign) and ast.unparse(st) == "stop__ = True" and i != len(seq) - 1:
                            raise Unsupported("%s: statements after break" % info.qual)
        src = "def step__(%s):\n    replies__ = []\n    stop__ = False\n    pass\n    return (%s, replies__, stop__)\n" % (
            ", ".join(lo["params"]), ", ".join(lo["state"]))
        syn = ast.parse(src).body[0]
        syn.body = syn.body[:2] + body + syn.body[3:]
        ast.fix_missing_locations(syn)
        opts = dict(info.opts)
        opts.pop("loop")
        opts["name"] = info.coqname
        opts["opaque_fun"] = dict(opts.get("opaque_fun", {}))
        opts["opaque_fun"]["apply__"] = ("apply", 2)
        for pat, (nm, drop) in lo.get("collectives", {}).items():
            opts["opaque_fun"][nm] = (nm, 1)
        syn_info = FnInfo(info.qual, syn, None, opts)
        syn_info.coqname = info.coqname
        return self.emit_function(syn_info)

    # ------------------------------------------------------------------ straight-line scripts with collectives
    def emit_straight(self, info):
        """opts['straight'] = dict(pre=[statement texts], post=[statement texts], params=[...],
        replace={call text: parameter name}, apply=<call text>, apply_arg=<variable>,
        sink=(callee, keyword carrying the value, {other keyword: expected text}),
        collectives={callee: (name, {kw: text})}).
        The function body must consist of exactly `pre` (ignored: set-up that only defines the
        parameters), then the translated statements, then `post` (ignored).  Every effectful call in
        the translated part must be one of: a `replace` call (becomes a parameter), the `apply`
        call (becomes apply__(None, <apply_arg>)), the sink (its value is appended to writes__),
        a collective.  Result: the tuple (writes__,)."""
        st = info.opts["straight"]
        body = list(info.node.body)
        if body and isinstance(body[0], ast.Expr) and isinstance(body[0].value, ast.Constant) \
                and isinstance(body[0].value.value, str):
            body = body[1:]
        texts = [ast.unparse(b) for b in body]
        npre, npost = len(st["pre"]), len(st["post"])
        if texts[:npre] != st["pre"]:
            raise Unsupported("%s: set-up statements changed: %r" % (info.qual, texts[:npre]))
        if npost and texts[len(texts) - npost:] != st["post"]:
            raise Unsupported("%s: closing statements changed: %r" % (info.qual, texts[len(texts) - npost:]))
        mid = body[npre:len(body) - npost]
        used = set()

        class Rw(ast.NodeTransformer):
            def visit_Expr(self, node):
                v = node.value
                if isinstance(v, ast.Call) and ast.unparse(v.func) == st["sink"][0]:
                    kws = {k.arg: k.value for k in v.keywords}
                    if v.args or set(kws) != {st["sink"][1]} | set(st["sink"][2]):
                        raise Unsupported("%s: sink call form: %s" % (info.qual, ast.unparse(v)))
                    for k, want in st["sink"][2].items():
                        if ast.unparse(kws[k]) != want:
                            raise Unsupported("%s: sink call form: %s" % (info.qual, ast.unparse(v)))
                    used.add("sink")
                    return ast.copy_location(ast.AugAssign(
                        target=ast.Name(id="writes__", ctx=ast.Store()), op=ast.Add(),
                        value=ast.List(elts=[self.visit(kws[st["sink"][1]])], ctx=ast.Load())), node)
                return self.generic_visit(node)

            def visit_Call(self, node):
                txt = ast.unparse(node)
                if txt in st.get("replace", {}):
                    used.add(txt)
                    return ast.Name(id=st["replace"][txt], ctx=ast.Load())
                if txt == st["apply"]:
                    used.add("apply")
                    return ast.Call(func=ast.Name(id="apply__", ctx=ast.Load()),
                                    args=[ast.Constant(value=None), ast.Name(id=st["apply_arg"], ctx=ast.Load())], keywords=[])
                node = self.generic_visit(node)
                f = ast.unparse(node.func)
                for pat, (nm, drop) in st.get("collectives", {}).items():
                    if f == pat:
                        for k in node.keywords:
                            if k.arg not in drop or ast.unparse(k.value) != drop[k.arg]:
                                raise Unsupported("%s: collective form: %s" % (info.qual, txt))
                        used.add(pat)
                        return ast.Call(func=ast.Name(id=nm, ctx=ast.Load()), args=node.args, keywords=[])
                return node

        mid = [Rw().visit(n) for n in mid]
        want = {"sink", "apply"} | set(st.get("replace", {})) | set(st.get("collectives", {}))
        if used != want:
            raise Unsupported("%s: expected calls not found: %r" % (info.qual, sorted(want - used)))
        src = "def body__(%s):\n    writes__ = []\n    pass\n    return (writes__,)\n" % ", ".join(st["params"])
        syn = ast.parse(src).body[0]
        syn.body = syn.body[:1] + mid + syn.body[2:]
        ast.fix_missing_locations(syn)
        opts = dict(info.opts)
        opts.pop("straight")
        opts["name"] = info.coqname
        opts["opaque_fun"] = dict(opts.get("opaque_fun", {}))
        opts["opaque_fun"]["apply__"] = ("apply", 2)
        for pat, (nm, drop) in st.get("collectives", {}).items():
            opts["opaque_fun"][nm] = (nm, 1)
        syn_info = FnInfo(info.qual, syn, None, opts)
        syn_info.coqname = info.coqname
        return self.emit_function(syn_info)

    # ------------------------------------------------------------------ while-guards
    def emit_guards(self, info):
        """guards_only: every `while <test>:` of the function becomes a definition of its test
        as a function of the listed variables; the loop body must be one of the accepted
        re-filtering forms (checked textually against opts['loop_body'])."""
        self.cur = info
        self.tmp = 0
        self.owned = set()
        self.used_opaque = set()
        out = []
        whiles = [n for n in ast.walk(info.node) if isinstance(n, ast.While)]
        want = info.opts["guards_only"]
        if len(whiles) != len(want):
            raise Unsupported("%s: expected %d while loops, found %d" % (info.qual, len(want), len(whiles)))
        for w, spec in zip(whiles, want):
            body_src = "\n".join(ast.unparse(b) for b in w.body)
            if body_src != spec["body"]:
                raise Unsupported("%s: while body changed:\n%s" % (info.qual, body_src))
            self.defined = set(spec["vars"])
            term = self.expr(w.test)
            out.append("(* %s: guard of `while %s` *)" % (info.qual, ast.unparse(w.test)))
            out.append("Definition %s (%s : pyval) : res pyval :=\n  %s." % (
                spec["name"], " ".join(mangle(v) for v in spec["vars"]), term))
        return out


def translate_all(repo, targets, outdir):
    """returns dict name -> text; raises Unsupported"""
    known = {}
    texts = {}
    for t in targets:
        tr = Translator(repo, t, dict(known))
        texts[t["out"]] = tr.run()
        for q, info in tr.funcs.items():
            known[q] = info
    return texts


def write_if_changed(path, text):
    old = None
    if os.path.exists(path):
        with open(path) as fh:
            old = fh.read()
    if old != text:
        with open(path, "w") as fh:
            fh.write(text)
        return True
    return False


if __name__ == "__main__":
    sys.path.insert(0, os.path.dirname(os.path.abspath(__file__)))
    import targets as T
    repo = sys.argv[1] if len(sys.argv) > 1 else "/repo"
    outdir = sys.argv[2] if len(sys.argv) > 2 else os.path.join(os.path.dirname(__file__), "..", "coq", "theories", "Gen")
    try:
        texts = translate_all(repo, T.TARGETS, outdir)
    except Unsupported as ex:
        print("TRANSLATOR-FAIL: %s" % ex)
        sys.exit(2)
    for name, text in texts.items():
        ch = write_if_changed(os.path.join(outdir, name + ".v"), text)
        print("%s %s.v sha=%s" % ("wrote" if ch else "same ", name, hashlib.sha1(text.encode()).hexdigest()[:10]))
