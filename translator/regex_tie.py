"""Fail-closed tie between Model/Blank.v and standalone/serialize._get_hash: the source must
contain exactly the substitution the Gallina function implements."""
import ast
import os

EXPECTED = 're.sub(b\'(?<=/ipykernel_)([0-9]+)(?=/)\', b\'\', binary)'


def check(repo):
    path = os.path.join(repo, "executorlib/standalone/serialize.py")
    tree = ast.parse(open(path).read())
    fn = [n for n in tree.body if isinstance(n, ast.FunctionDef) and n.name == "_get_hash"]
    if len(fn) != 1:
        return "_get_hash not found"
    body = [s for s in fn[0].body if not (isinstance(s, ast.Expr) and isinstance(s.value, ast.Constant))]
    texts = [ast.unparse(s) for s in body]
    want = ["binary_no_ipykernel = " + EXPECTED, "return str(hashlib.md5(binary_no_ipykernel).hexdigest())"]
    if texts != want:
        return "_get_hash body changed: %r" % (texts,)
    return None
