#!/bin/bash
# developer helper: (re)generate Makefile and build the given .vo targets (default: all)
HERE="$(cd "$(dirname "$0")" && pwd)"
cd "$HERE"
PYTHONPATH="$HERE/lib" /venv/bin/python -c "import core; core.ensure_makefile()"
cd coq && flock build.lock timeout ${MK_TIMEOUT:-1500} make -j12 --no-print-directory "$@" 2>&1 | grep -v "^COQC\|^COQDEP\|^CLEAN" 
