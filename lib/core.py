"""Shared machinery of the checks: regenerate Gen/, build Coq cones, capture Print Assumptions,
run vm_compute case files, write evidence, decide violations.  See DESIGN.md 3.5 / 6."""
import fcntl
import hashlib
import json
import os
import random
import re
import subprocess
import sys
import time

ROOT = os.path.dirname(os.path.dirname(os.path.abspath(__file__)))
COQ = os.path.join(ROOT, "coq")
TH = os.path.join(COQ, "theories")
REPO = os.environ.get("VERIF_REPO", "/repo")
PY = "/venv/bin/python"
sys.path.insert(0, os.path.join(ROOT, "translator"))

FORBIDDEN = re.compile(
    r"\b(Admitted|admit|Axiom|Axioms|Parameter|Parameters|Conjecture|Conjectures|Hypothesis|Hypotheses|Variable|Variables)\b"
    r"|Unset\s+Guard|bypass_check|Admit\s+Obligations|type-in-type|impredicative-set|native_compute"
    r"|Unset\s+Universe\s+Checking|Unset\s+Positivity")
ALLOWED_AXIOMS = set()     # "Closed under the global context" is the target for every theorem


class Lock:
    def __enter__(self):
        self.fh = open(os.path.join(COQ, "build.lock"), "w")
        fcntl.flock(self.fh, fcntl.LOCK_EX)
        return self

    def __exit__(self, *a):
        fcntl.flock(self.fh, fcntl.LOCK_UN)
        self.fh.close()


def sh(cmd, timeout=600, cwd=None, env=None, input=None):
    try:
        p = subprocess.run(cmd, cwd=cwd, env=env, input=input, capture_output=True, text=True, timeout=timeout)
        return p.returncode, p.stdout + p.stderr
    except subprocess.TimeoutExpired as ex:
        return 124, "TIMEOUT after %ss: %s\n%s" % (timeout, cmd, (ex.stdout or b"").decode() if isinstance(ex.stdout, bytes) else (ex.stdout or ""))


# ------------------------------------------------------------------ grep gate
def grep_gate():
    """No axioms / admits / disabled checks anywhere in the development (Section
    Variables/Hypotheses are allowed only inside `Section`s — we simply do not use them
    outside Model files, where they are checked to be inside a Section)."""
    bad = []
    for dp, _, fns in os.walk(TH):
        for fn in fns:
            if not fn.endswith(".v"):
                continue
            path = os.path.join(dp, fn)
            depth = 0
            with open(path) as fh:
                txt = fh.read()
            txt = re.sub(r"\(\*.*?\*\)", " ", txt, flags=re.S)
            for ln, line in enumerate(txt.split("\n"), 1):
                if re.match(r"\s*Section\b", line):
                    depth += 1
                if re.match(r"\s*End\b", line) and depth > 0:
                    depth -= 1
                for m in FORBIDDEN.finditer(line):
                    w = m.group(0)
                    if w in ("Variable", "Variables", "Hypothesis", "Hypotheses") and depth > 0:
                        continue
                    bad.append("%s:%d: %s" % (os.path.relpath(path, ROOT), ln, w))
    return bad


# ------------------------------------------------------------------ translator
def regen():
    """regenerate Gen/*.v from REPO; returns {target: None | error string}"""
    import importlib
    import py2v
    import targets as T
    importlib.reload(py2v)
    importlib.reload(T)
    os.makedirs(os.path.join(TH, "Gen"), exist_ok=True)
    status = {}
    known = {}
    for t in T.TARGETS:
        name = t["out"]
        missing = [r for r in t.get("requires", []) if status.get(r) is not None]
        if missing:
            status[name] = "requires %s which failed to translate" % missing
            continue
        try:
            tr = py2v.Translator(REPO, t, dict(known))
            text = tr.run()
            for q, info in tr.funcs.items():
                known[q] = info
            py2v.write_if_changed(os.path.join(TH, "Gen", name + ".v"), text)
            status[name] = None
        except (py2v.Unsupported, SyntaxError, OSError) as ex:
            status[name] = "%s: %s" % (type(ex).__name__, ex)
            # leave a stub that does not compile so that stale definitions are never used
            py2v.write_if_changed(os.path.join(TH, "Gen", name + ".v"),
                                  "(* translation failed: see check output *)\nDefinition translation_failed : False := I.\n")
    return status


def gen_sha(names):
    h = hashlib.sha1()
    for n in names:
        with open(os.path.join(TH, "Gen", n + ".v"), "rb") as fh:
            h.update(fh.read())
    return h.hexdigest()[:12]


# ------------------------------------------------------------------ coq build
def all_v_files():
    out = []
    for dp, _, fns in os.walk(TH):
        if os.path.basename(dp) == "Cases":
            continue
        for fn in sorted(fns):
            if fn.endswith(".v"):
                out.append(os.path.relpath(os.path.join(dp, fn), COQ))
    return sorted(out)


def ensure_makefile():
    files = all_v_files()
    proj = "-Q theories EL\n-arg -w -arg -notation-overridden,-deprecated-hint-without-locality,-deprecated-instance-without-locality,-ambiguous-paths\n" + "\n".join(files) + "\n"
    p = os.path.join(COQ, "_CoqProject")
    old = open(p).read() if os.path.exists(p) else ""
    if old != proj or not os.path.exists(os.path.join(COQ, "Makefile")):
        with open(p, "w") as fh:
            fh.write(proj)
        rc, out = sh(["coq_makefile", "-f", "_CoqProject", "-o", "Makefile"], cwd=COQ, timeout=120)
        if rc != 0:
            raise RuntimeError("coq_makefile failed: " + out)


def make(vo_targets, timeout=1500, jobs=8):
    """full .vo build of the given targets (paths relative to coq/); returns (ok, log)"""
    ensure_makefile()
    rc, out = sh(["make", "-j%d" % jobs, "--no-print-directory"] + list(vo_targets), cwd=COQ, timeout=timeout)
    return rc == 0, out


def coqc(path, timeout=600):
    rc, out = sh(["coqc", "-Q", "theories", "EL", "-w", "-notation-overridden,-deprecated-hint-without-locality,-ambiguous-paths", path], cwd=COQ, timeout=timeout)
    return rc, out


def first_error(log):
    m = re.search(r'File "([^"]+)", line (\d+), characters [\d-]+:\s*\n(Error:.*?)(?:\n\n|\nmake|\Z)', log, flags=re.S)
    if m:
        return {"file": m.group(1), "line": int(m.group(2)), "error": m.group(3)[:1500]}
    return {"file": None, "line": None, "error": log[-1500:]}


def enclosing_statement(vfile, line):
    """name of the Lemma/Theorem that contains the given line"""
    try:
        with open(os.path.join(COQ, vfile) if not os.path.isabs(vfile) else vfile) as fh:
            lines = fh.read().split("\n")
    except OSError:
        return None
    for i in range(min(line, len(lines)) - 1, -1, -1):
        m = re.match(r"\s*(Lemma|Theorem|Corollary|Example|Definition|Fixpoint)\s+(\w+)", lines[i])
        if m:
            return m.group(2)
    return None


def props_assumptions(pid):
    """compile Props/<pid>.v (dependencies must be built) and parse its Print Assumptions output"""
    rc, out = coqc("theories/Props/%s.v" % pid)
    thms = re.findall(r"^\s*(?:Theorem|Lemma|Corollary)\s+(\w+)", open(os.path.join(TH, "Props", pid + ".v")).read(), flags=re.M)
    blocks = []
    cur = None
    for line in out.split("\n"):
        if line.startswith("Closed under the global context"):
            blocks.append([])
            cur = None
        elif line.startswith("Axioms:"):
            cur = []
            blocks.append(cur)
        elif cur is not None and line.strip():
            if re.match(r"^\S", line):
                cur.append(line.split(":")[0].strip())
    return rc, out, thms, blocks


def count_statements(vfiles):
    n = 0
    names = []
    for f in vfiles:
        txt = open(os.path.join(TH, f)).read()
        txt = re.sub(r"\(\*.*?\*\)", " ", txt, flags=re.S)
        for m in re.finditer(r"^\s*(?:Lemma|Theorem|Corollary|Example|Fact|Remark)\s+(\w+)", txt, flags=re.M):
            n += 1
            names.append(m.group(1))
    return n, names


# ------------------------------------------------------------------ vm_compute case files
def coq_str(s):
    if any(not (32 <= ord(c) < 127) for c in s):
        raise ValueError("non printable-ASCII string in a case: %r" % s)
    return '"' + s.replace('"', '""') + '"'


def pyval(v):
    """Python value -> Gallina pyval literal"""
    if v is None:
        return "VNone"
    if v is True:
        return "(VBool true)"
    if v is False:
        return "(VBool false)"
    if isinstance(v, int):
        return "(VInt (%d))" % v
    if isinstance(v, str):
        return "(VStr %s)" % coq_str(v)
    if isinstance(v, list):
        return "(VList [%s])" % "; ".join(pyval(x) for x in v)
    if isinstance(v, tuple):
        return "(VTuple [%s])" % "; ".join(pyval(x) for x in v)
    if isinstance(v, dict):
        return "(VDict [%s])" % "; ".join("(%s, %s)" % (pyval(k), pyval(x)) for k, x in v.items())
    if isinstance(v, Obj):
        return "(VObj %s (%d))" % (coq_str(v.cls), v.id)
    if isinstance(v, float):
        return "(VObj \"float\" 0)"
    raise ValueError("no pyval literal for %r" % (v,))


class Obj:
    """opaque object with identity, mirrors VObj"""

    def __init__(self, cls, id):
        self.cls, self.id = cls, id

    def __eq__(self, o):
        return isinstance(o, Obj) and (o.cls, o.id) == (self.cls, self.id)

    def __hash__(self):
        return hash((self.cls, self.id))

    def __repr__(self):
        return "Obj(%s#%d)" % (self.cls, self.id)


def show(v):
    """must agree with Base/Show.v"""
    if v is None:
        return "N"
    if v is True:
        return "T"
    if v is False:
        return "F"
    if isinstance(v, int):
        return "i%d" % v
    if isinstance(v, str):
        return "s" + v.encode().hex()
    if isinstance(v, list):
        return "[" + "".join(show(x) + "," for x in v) + "]"
    if isinstance(v, tuple):
        return "(" + "".join(show(x) + "," for x in v) + ")"
    if isinstance(v, dict):
        return "{" + "".join(show(k) + ":" + show(x) + "," for k, x in v.items()) + "}"
    if isinstance(v, Obj):
        return "o%s#%d" % (v.cls, v.id)
    if isinstance(v, float):
        return "ofloat#0"       # floats are opaque in the model (VObj "float" 0)
    raise ValueError("no show for %r" % (v,))


def show_outcome(fn):
    """run fn(); 'Ok <show>' (tuples of results joined by ' | ') or 'Err <ExceptionClass>'"""
    try:
        r = fn()
    except Exception as ex:  # noqa
        return "Err " + type(ex).__name__
    if isinstance(r, Multi):
        return "Ok " + " | ".join(show(x) for x in r.vals)
    return "Ok " + show(r)


class Multi:
    def __init__(self, *vals):
        self.vals = vals


def eval_strings(imports, exprs, tag, shard=400, timeout=900):
    """evaluate Gallina expressions of type string by vm_compute; returns list of python strings.
    Hex/ASCII-safe strings only (no quote characters inside)."""
    cdir = os.path.join(TH, "Cases")
    os.makedirs(cdir, exist_ok=True)
    okb, logb = make(["theories/%s.vo" % i.replace(".", "/") for i in imports])
    if not okb:
        raise CaseEvalError("could not build the imported libraries: %s" % (first_error(logb),))
    results = []
    shards = [exprs[i:i + shard] for i in range(0, len(exprs), shard)]
    procs = []
    for si, sh_exprs in enumerate(shards):
        name = "%s_p%d_%d" % (tag, os.getpid(), si)        # unique per process: checks may run side by side
        path = os.path.join(cdir, name + ".v")
        with open(path, "w") as fh:
            fh.write("From Coq Require Import ZArith String List Bool.\n")
            for imp in imports:
                fh.write("From EL Require Import %s.\n" % imp)
            fh.write("Import ListNotations.\nLocal Open Scope string_scope.\nLocal Open Scope Z_scope.\n")
            fh.write("Definition cases : list string := [\n  %s\n].\n" % ";\n  ".join(sh_exprs))
            fh.write("Eval vm_compute in cases.\n")
        procs.append((name, path, len(sh_exprs)))
    # run shards in parallel
    running = []
    outs = {}
    for name, path, n in procs:
        p = subprocess.Popen(["coqc", "-Q", "theories", "EL", "-w", "-notation-overridden,-ambiguous-paths", path], cwd=COQ,
                             stdout=subprocess.PIPE, stderr=subprocess.STDOUT, text=True)
        running.append((name, p, n))
        if len(running) >= 8:
            nm, pp, nn = running.pop(0)
            outs[nm] = (pp.communicate(timeout=timeout)[0], pp.returncode, nn)
    for nm, pp, nn in running:
        outs[nm] = (pp.communicate(timeout=timeout)[0], pp.returncode, nn)
    for name, path, n in procs:
        out, rc, nn = outs[name]
        if rc != 0:
            raise CaseEvalError("coqc failed on %s: %s" % (path, out[-2000:]))
        strs = re.findall(r'"([^"]*)"', out[out.index("= ["):] if "= [" in out else out)
        if len(strs) != n:
            raise CaseEvalError("expected %d results from %s, parsed %d: %s" % (n, path, len(strs), out[:500]))
        results += [s.replace("\n", "").replace("  ", " ") for s in strs]
        for ext in (".v", ".vo", ".glob", ".vok", ".vos"):
            try:
                os.remove(os.path.join(cdir, name + ext))
            except OSError:
                pass
        try:
            os.remove(os.path.join(cdir, "." + name + ".aux"))
        except OSError:
            pass
    return results


class CaseEvalError(Exception):
    pass


# ------------------------------------------------------------------ findings
def load_findings():
    """KNOWN_FINDINGS.txt: lines `open: property=Cxx id=<slug> <what fails>` or
    `fixed: property=Cxx <commit> <what failed>`"""
    out = {"open": [], "fixed": []}
    p = os.path.join(ROOT, "KNOWN_FINDINGS.txt")
    if not os.path.exists(p):
        return out
    for line in open(p):
        line = line.strip()
        if not line or line.startswith("#"):
            continue
        m = re.match(r"open:\s+property=(\w+)\s+id=(\S+)\s+(.*)", line)
        if m:
            out["open"].append({"property": m.group(1), "id": m.group(2), "what": m.group(3)})
            continue
        m = re.match(r"fixed:\s+property=(\w+)\s+(\S+)\s+(.*)", line)
        if m:
            out["fixed"].append({"property": m.group(1), "commit": m.group(2), "what": m.group(3)})
    return out


# ------------------------------------------------------------------ result / evidence
class Result:
    """collects what a check run covered and found"""

    def __init__(self, pid, tier, seed):
        self.pid, self.tier, self.seed = pid, tier, seed
        self.t0 = time.time()
        self.violations = []      # (replay dict, found_input: bool)
        self.known = []           # finding ids that reproduced
        self.cov = {"obligations": 0, "discharged": 0, "checker_cmd": "", "trusted_base": [],
                    "samples": [], "evaluations": 0, "distinct_nontrivial": 0, "rule": ""}
        self.assumptions = []
        self.notes = []
        self.rng = random.Random(seed)

    def violation(self, what, replay, found_input=True):
        self.violations.append((what, replay, found_input))

    def finish(self):
        os.makedirs(os.path.join(ROOT, "evidence", "replays"), exist_ok=True)
        lines = []
        for what, replay, found in self.violations:
            h = hashlib.sha1(json.dumps(replay, sort_keys=True, default=str).encode()).hexdigest()[:10]
            path = os.path.join(ROOT, "evidence", "replays", "%s-%s.json" % (self.pid, h))
            with open(path, "w") as fh:
                json.dump({"property": self.pid, "what": what, "replay": replay,
                           "failing_input_found": found}, fh, indent=1, default=str)
            lines.append("VIOLATION property=%s replay=%s%s" % (self.pid, path, "" if found else " no-failing-input-found"))
        ev = {"property_id": self.pid, "tier": self.tier, "seed": self.seed, "level": "proof",
              "coverage": self.cov, "assumptions": self.assumptions, "wall_s": round(time.time() - self.t0, 2),
              "violations": len(self.violations), "known_findings_reproduced": self.known, "notes": self.notes}
        with open(os.path.join(ROOT, "evidence", self.pid + ".json"), "w") as fh:
            json.dump(ev, fh, indent=1, default=str)
        for k in self.known:
            print("KNOWN-FINDING: property=%s %s" % (self.pid, k))
        for l in lines:
            print(l)
        return 1 if lines else 0


def proof_stage(res, pid, cone_files, gen_names, gen_status):
    """build Props/<pid>.vo and its cone; returns dict(ok, broken=[...])"""
    broken = []
    for g in gen_names:
        if gen_status.get(g) is not None:
            broken.append({"kind": "translator", "target": g, "error": gen_status[g]})
    nstat, names = count_statements(cone_files + ["Props/%s.v" % pid])
    res.cov["obligations"] = nstat
    res.cov["checker_cmd"] = "make -C coq theories/Props/%s.vo  (coqc 8.16.1, full .vo build) + coqc theories/Props/%s.v for Print Assumptions" % (pid, pid)
    if broken:
        res.cov["discharged"] = 0
        return {"ok": False, "broken": broken}
    ok, log = make(["theories/Props/%s.vo" % pid])
    if not ok:
        fe = first_error(log)
        thm = enclosing_statement(fe["file"], fe["line"]) if fe["file"] else None
        broken.append({"kind": "proof", "file": fe["file"], "line": fe["line"], "statement": thm, "error": fe["error"]})
        # how many statements still compile is not known exactly: count those in files that built
        built = 0
        for f in cone_files + ["Props/%s.v" % pid]:
            if os.path.exists(os.path.join(TH, f[:-2] + ".vo")) and \
                    os.path.getmtime(os.path.join(TH, f[:-2] + ".vo")) >= os.path.getmtime(os.path.join(TH, f)):
                built += count_statements([f])[0]
        res.cov["discharged"] = built
        return {"ok": False, "broken": broken}
    rc, out, thms, blocks = props_assumptions(pid)
    if rc != 0:
        broken.append({"kind": "proof", "file": "theories/Props/%s.v" % pid, "error": out[-1500:]})
        res.cov["discharged"] = 0
        return {"ok": False, "broken": broken}
    axioms = sorted({a for b in blocks for a in b})
    if len(blocks) != len(thms):
        broken.append({"kind": "assumptions", "error": "Print Assumptions blocks (%d) != theorems (%d)" % (len(blocks), len(thms))})
    bad = [a for a in axioms if a not in ALLOWED_AXIOMS]
    if bad:
        broken.append({"kind": "assumptions", "error": "theorems depend on axioms: %s" % bad})
    res.cov["discharged"] = nstat if not broken else 0
    res.cov["trusted_base"] = [
        "Coq 8.16.1 kernel + vm_compute (no native_compute)",
        "Print Assumptions for %d theorems of Props/%s.v: %s" % (
            len(thms), pid, "Closed under the global context" if not axioms else ", ".join(axioms)),
    ]
    res.cov["theorems"] = thms
    return {"ok": not broken, "broken": broken}


# ------------------------------------------------------------------ standard flow of a translated-model check
def standard_run(res, pid, cone, gen, imports, build_cases, rule, assumptions, extra_specs=None):
    """build_cases(res) -> list of (function, input, coq_expr|None, python_outcome, oracle_verdict|None).
    extra_specs(res) -> list of (label, input, coq_expr, expected_string): specification-side
    cross-checks (e.g. Python oracle vs Gallina spec)."""
    with Lock():
        gate = grep_gate()
        status = regen()
        pr = proof_stage(res, pid, cone, gen, status)
        if gate:
            pr["ok"] = False
            pr["broken"].append({"kind": "gate", "error": gate})
        cases = build_cases(res)
        specs = extra_specs(res) if extra_specs else []
        mismatches = []
        evaluated = 0
        if all(status.get(g) is None for g in gen):
            vos = ["theories/Base/Show.vo"] + ["theories/%s.vo" % i.replace(".", "/") for i in imports]
            ok, log = make(vos)
            if not ok:
                pr["ok"] = False
                pr["broken"].append({"kind": "gen-compile", "error": first_error(log)})
            else:
                try:
                    todo = [c for c in cases if c[2] is not None]
                    outs = eval_strings(imports, [c[2] for c in todo], pid + "_diff")
                    evaluated = len(outs)
                    for c, o in zip(todo, outs):
                        if o != c[3]:
                            mismatches.append({"function": c[0], "input": c[1], "python": c[3], "coq_model": o})
                    if specs:
                        souts = eval_strings(imports, [c[2] for c in specs], pid + "_spec")
                        for c, o in zip(specs, souts):
                            if o != c[3]:
                                mismatches.append({"function": c[0] + " (oracle vs specification)", "input": c[1],
                                                   "python": c[3], "coq_model": o})
                except CaseEvalError as ex:
                    pr["ok"] = False
                    pr["broken"].append({"kind": "case-eval", "error": str(ex)[-1500:]})
    oracle_fail = [{"function": c[0], "input": c[1], "observed": c[3], "why": c[4]} for c in cases if c[4]]
    decide(res, pr, mismatches, oracle_fail, cases, evaluated, rule, assumptions)
    return pr, mismatches, oracle_fail


def decide(res, pr, mismatches, oracle_fail, cases, evaluated, rule, assumptions, known_filter=None):
    res.cov["evaluations"] = len(cases)
    res.cov["distinct_nontrivial"] = len({json.dumps([c[0], c[1]], sort_keys=True, default=str) for c in cases
                                          if not str(c[3]).startswith("Err")})
    res.cov["rule"] = rule
    res.cov["translator_diff_cases"] = evaluated
    res.cov["translator_diff_mismatches"] = len(mismatches)
    res.cov["oracle_failures"] = len(oracle_fail)
    hist = {}
    errs = {}
    for c in cases:
        hist[c[0]] = hist.get(c[0], 0) + 1
        if str(c[3]).startswith("Err"):
            errs[c[3]] = errs.get(c[3], 0) + 1
    res.cov["input_distribution"] = hist
    res.cov["error_kinds"] = errs
    res.cov["samples"] = [{"function": c[0], "input": c[1], "outcome": c[3]} for c in cases[:3] + cases[-2:]]
    res.assumptions = assumptions
    tie_broken = (not pr["ok"]) or bool(mismatches)
    if not tie_broken and not oracle_fail:
        return
    if oracle_fail:
        f = min(oracle_fail, key=lambda x: len(json.dumps(x["input"], default=str)))
        res.violation("implementation violates the property's oracle on a concrete input", {
            "kind": "oracle", "case": f, "count": len(oracle_fail), "broken_tie": pr["broken"], "diff": mismatches[:3]})
        return
    res.violation("proof or model/code correspondence no longer checks and no failing input was found", {
        "kind": "tie", "broken": pr["broken"], "diff": mismatches[:5]}, found_input=False)
