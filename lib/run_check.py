import argparse
import importlib
import os
import sys
import traceback

sys.path.insert(0, os.path.dirname(os.path.abspath(__file__)))
import core  # noqa


def main():
    ap = argparse.ArgumentParser()
    ap.add_argument("pid")
    ap.add_argument("--tier", default=os.environ.get("VERIF_TIER", "quick"))
    ap.add_argument("--replay", default=None)
    a = ap.parse_args()
    seed = int(os.environ.get("VERIF_SEED", "0") or 0)
    sys.path.insert(0, os.path.join(core.ROOT, "props"))
    mod = importlib.import_module(a.pid)
    if a.replay:
        sys.exit(mod.replay(a.replay))
    res = core.Result(a.pid, a.tier, seed)
    try:
        mod.run(res)
    except Exception:  # machinery failure: never silent
        tb = traceback.format_exc()
        print(tb)
        res.violation("check machinery raised an exception", {"traceback": tb}, found_input=False)
    sys.exit(res.finish())


main()
