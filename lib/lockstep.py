"""Lockstep correspondence: run the real code under the deterministic simulator, replay the
implementation's picks on the Coq model (vm_compute) and compare step by step."""
import json
import os
import random
import sys
from concurrent.futures import ThreadPoolExecutor

import core

sys.path.insert(0, os.path.join(core.ROOT, "harness"))
import runcase  # noqa


def run_cases(cases, jobs=14):
    with ThreadPoolExecutor(max_workers=jobs) as ex:
        return list(ex.map(runcase.run_forked, cases))


# ------------------------------------------------------------------ generation
def gen_block_case(rng, max_calls=4, allow_fail=True):
    n = rng.choice([1, 1, 2, 2, 3])
    ncalls = rng.randint(0, max_calls)
    calls = [{"raises": allow_fail and rng.random() < 0.15} for _ in range(ncalls)]
    ops = []
    submitted = []
    pending = list(range(1, ncalls + 1))
    nshut = 0
    while True:
        r = rng.random()
        if pending and r < 0.5:
            i = pending.pop(0)
            ops.append(["submit", i])
            submitted.append(i)
        elif submitted and r < 0.62:
            ops.append(["cancel", rng.choice(submitted)])
        elif submitted and r < 0.72:
            ops.append(["result", rng.choice(submitted)])
        elif r < 0.85 and nshut < 3:
            k = rng.random()
            if k < 0.2:
                ops.append(["exit"])
            else:
                ops.append(["shutdown", rng.random() < 0.6, rng.random() < 0.4])
            nshut += 1
        elif not pending or rng.random() < 0.2:
            break
        if len(ops) > 12:
            break
    return {"mode": "block", "workers": n, "calls": calls, "ops": ops}


def gen_schedule(rng, length=600):
    style = rng.random()
    if style < 0.15:
        return [0] * length
    if style < 0.3:
        return [rng.choice([0, 0, 0, 1]) for _ in range(length)]
    if style < 0.45:
        # bursts: stick with one entity for a while
        out = []
        while len(out) < length:
            out += [rng.randrange(6)] * rng.randint(1, 12)
        return out[:length]
    return [rng.randrange(6) for _ in range(length)]


# ------------------------------------------------------------------ rendering
def tid_coq(name):
    return {"M": "TM"}.get(name) or ("(TW %s)" % name[1:] if name[0] == "W" else "(TP %s)" % name[1:])


def op_coq(op):
    k = op[0]
    if k == "submit":
        return "OSubmit %d" % op[1]
    if k == "cancel":
        return "OCancel %d" % op[1]
    if k == "result":
        return "OResult %d" % op[1]
    if k == "shutdown":
        return "OShutdown %s %s" % ("true" if op[1] else "false", "true" if op[2] else "false")
    if k == "exit":
        return "OExit"
    raise ValueError(op)


def coq_expr(case, res):
    rs = [i + 1 for i, c in enumerate(case["calls"]) if c.get("raises")]
    picks = [tid_coq(t[1]) for t in res["trace"]]
    return "(replay_case %d [%s] %d [%s] [%s])%%nat" % (
        case["workers"], "; ".join(str(r) for r in rs), len(case["calls"]),
        "; ".join(op_coq(o) for o in case["ops"]), "; ".join(picks))


def outcome_str(o):
    k = o[0]
    if k in ("construct", "end", "drop"):
        return None
    last = o[-1]
    if k == "submit":
        return "ok" if last == "ok" else "raise"
    if k == "cancel":
        if last == "skip":
            return "skip"
        return "1" if last is True else "0"
    if k == "result":
        if last == "skip":
            return "skip"
        if str(last).startswith("res:"):
            return last
        if last == "cancelled":
            return "cancelled"
        return "exc"
    if k in ("shutdown", "exit"):
        return "ok" if last == "ok" else "raise"
    return "?"


def impl_lines(case, res):
    lines = ["%s|%s|%s" % (",".join(en), pick, " ".join(str(x) for x in lab)) for en, pick, lab in res["trace"]]
    nf = len(case["calls"])
    futs = []
    for i in range(1, nf + 1):
        st = res["futures"].get(str(i), "pending")
        futs.append({"exc:ValueError": "exc:ValueError"}.get(st, st))
    outs = [x for x in (outcome_str(o) for o in res["outcomes"]) if x is not None]
    ents = res["ents"]
    wnames = sorted([n for n in ents if n[0] == "W"], key=lambda n: int(n[1:]))
    ws = []
    for n in wnames:
        st, exc = ents[n]
        ws.append("live" if st not in ("done", "killed") else ("dead" if exc else "done"))
    pnames = sorted(res["procs"], key=lambda n: int(n[1:]))
    ps = ["alive" if res["procs"][n]["alive"] else "exited" for n in pnames]
    q = ["%d:%s" % (x["unf"], ".".join(x["items"])) for x in res["queues"]]
    en_final = ",".join(res.get("enabled_final", []))
    lines.append("F|en=%s|futs=%s|outs=%s|main=%s|ws=%s|ps=%s|q=%s" % (
        en_final, ",".join(futs), ",".join(outs), "end" if ents["M"][0] == "done" else "live",
        ",".join(ws), ",".join(ps), ",".join(q)))
    return lines


def compare(case, res, coq_out):
    """returns None or a dict describing the first divergence"""
    if res["verdict"] not in ("done", "deadlock", "quiescent"):
        return {"kind": "harness", "verdict": res["verdict"], "error": res.get("error")}
    il = impl_lines(case, res)
    ml = coq_out.split(";")
    for k, (a, b) in enumerate(zip(il, ml)):
        if a != b:
            return {"kind": "diverge", "step": k, "impl": a, "model": b, "prefix": il[max(0, k - 6):k]}
    if len(il) != len(ml):
        return {"kind": "length", "impl": len(il), "model": len(ml), "impl_tail": il[-2:], "model_tail": ml[-2:]}
    return None


# ------------------------------------------------------------------ step executor
def eff_slots(case, i):
    ek = case.get("executor_kwargs", {})
    ecores = ek.get("cores", 1)
    res = case["calls"][i - 1].get("res") or {}
    cores = res.get("cores")
    if cores is None or (cores == 1 and ecores >= 1):
        cores = ecores
    return cores * res.get("threads_per_core", 1)


def gen_step_case(rng, max_calls=4, allow_fail=True):
    ncalls = rng.randint(0, max_calls)
    use_cores = rng.random() < 0.7
    limit = rng.choice([1, 2, 2, 3, 4])
    calls = []
    for _ in range(ncalls):
        c = {"raises": allow_fail and rng.random() < 0.12}
        if use_cores and rng.random() < 0.5:
            cores = rng.randint(1, limit)
            tpc = rng.choice([1, 1, 2]) if cores * 2 <= limit else 1
            c["res"] = {"cores": cores}
            if tpc > 1:
                c["res"]["threads_per_core"] = tpc
        elif not use_cores and rng.random() < 0.4:
            # a worker limit counts calls, not cores: multi-core calls under max_workers
            c["res"] = {"cores": rng.randint(1, 3)}
        else:
            c["res"] = {}
        calls.append(c)
    case = {"mode": "step", "calls": calls, "executor_kwargs": {}}
    if use_cores:
        case["max_cores"] = limit
    else:
        case["max_workers"] = limit
    blk = gen_block_case(rng, max_calls=ncalls, allow_fail=False)
    # reuse the op generator but on our calls
    ops, pending, submitted, nshut = [], list(range(1, ncalls + 1)), [], 0
    while True:
        r = rng.random()
        if pending and r < 0.55:
            i = pending.pop(0)
            ops.append(["submit", i])
            submitted.append(i)
        elif submitted and r < 0.63:
            ops.append(["cancel", rng.choice(submitted)])
        elif submitted and r < 0.73:
            ops.append(["result", rng.choice(submitted)])
        elif r < 0.85 and nshut < 2:
            ops.append(["exit"] if rng.random() < 0.2 else ["shutdown", rng.random() < 0.6, rng.random() < 0.4])
            nshut += 1
        elif not pending or rng.random() < 0.2:
            break
        if len(ops) > 12:
            break
    case["ops"] = ops
    return case


def coq_expr_x(case, res):
    rs = [i + 1 for i, c in enumerate(case["calls"]) if c.get("raises")]
    slots = [eff_slots(case, i + 1) for i in range(len(case["calls"]))]
    picks = [tid_coq_x(t[1]) for t in res["trace"]]
    enc = lambda v: 0 if v is None else v + 1  # noqa
    return "(xreplay_case [%s] [%s] %d %d %d [%s] [%s])%%nat" % (
        "; ".join(str(r) for r in rs), "; ".join(str(x) for x in slots), enc(case.get("max_cores")),
        enc(case.get("max_workers")), len(case["calls"]), "; ".join(op_coq(o) for o in case["ops"]), "; ".join(picks))


def tid_coq_x(name):
    if name in ("M", "D", "R"):
        return "T" + name
    return "(TW %s)" % name[1:] if name[0] == "W" else "(TP %s)" % name[1:]


def slot_usage(case, res):
    """implementation-side measure: slots requested by the calls whose body is executing, after every step"""
    executing = {}
    out = []
    for en, pick, lab in res["trace"]:
        if lab[0] == "zrecv" and str(lab[1]).startswith("C") and str(lab[2]).startswith("call"):
            executing[lab[1]] = int(str(lab[2])[4:])
        elif lab[0] == "zsend" and str(lab[1]).startswith("C") and lab[1] in executing:
            del executing[lab[1]]
        out.append(sum(eff_slots(case, i) for i in executing.values()))
    return out


def impl_lines_x(case, res):
    use = slot_usage(case, res)
    lines = ["%s|%s|%s|%d" % (",".join(en), pick, " ".join(str(x) for x in lab), u)
             for (en, pick, lab), u in zip(res["trace"], use)]
    nf = len(case["calls"])
    futs = [res["futures"].get(str(i), "pending") for i in range(1, nf + 1)]
    outs = [x for x in (outcome_str(o) for o in res["outcomes"]) if x is not None]
    ents = res["ents"]
    wnames = sorted([n for n in ents if n[0] == "W"], key=lambda n: int(n[1:]))
    ws = []
    for n in wnames:
        st, exc = ents[n]
        ws.append("live" if st not in ("done", "killed") else ("dead" if exc else "done"))
    pnames = sorted(res["procs"], key=lambda n: int(n[1:]))
    ps = ["alive" if res["procs"][n]["alive"] else "exited" for n in pnames]
    q = ["%d:%s" % (x["unf"], ".".join(x["items"])) for x in res["queues"]]
    if "D" in ents:
        st, exc = ents["D"]
        disp = "live" if st not in ("done", "killed") else ("dead" if exc else "done")
    else:
        disp = "none"
    lines.append("F|en=%s|futs=%s|outs=%s|main=%s|disp=%s|ws=%s|ps=%s|q=%s" % (
        ",".join(res.get("enabled_final", [])), ",".join(futs), ",".join(outs), "end" if ents["M"][0] == "done" else "live", disp,
        ",".join(ws), ",".join(ps), ",".join(q)))
    return lines


def cut_at_reraise(res):
    """index of the first step that joins a thread which died with an exception (the re-raise
    path: what the garbage collector does afterwards is not modelled for the composed
    executors), or None"""
    for k, (en, pick, lab) in enumerate(res["trace"]):
        if lab[0] == "tjoin" and res["ents"].get(lab[1], [None, None])[1]:
            return k
    return None


def compare_lines(il, coq_out, cut=None):
    ml = coq_out.split(";")
    if cut is not None:
        il, ml = il[:cut + 1], ml[:cut + 1]
    for k, (a, b) in enumerate(zip(il, ml)):
        if a != b:
            return {"kind": "diverge", "step": k, "impl": a, "model": b, "prefix": il[max(0, k - 6):k]}
    if len(il) != len(ml):
        return {"kind": "length", "impl": len(il), "model": len(ml), "impl_tail": il[-2:], "model_tail": ml[-2:]}
    return None


# ------------------------------------------------------------------ resolver in front of block / step
def gen_dep_case(rng, max_calls=4, allow_fail=True):
    inner_block = rng.random() < 0.5
    ncalls = rng.randint(0, max_calls)
    calls = []
    for i in range(1, ncalls + 1):
        c = {"raises": allow_fail and rng.random() < 0.12}
        if i > 1 and rng.random() < 0.55:
            k = rng.choice([1, 1, 2])
            c["deps"] = [rng.randint(1, i - 1) for _ in range(k)]
            if rng.random() < 0.3:
                c["nest"] = rng.choice([1, 1, 2])       # futures one or two list levels deep
        if not inner_block:
            c["res"] = {}
        calls.append(c)
    if ncalls >= 3 and rng.random() < 0.35:
        # fan-out: several calls waiting for the same (possibly repeated) input
        root = rng.randint(1, ncalls - 2)
        for i in range(root + 1, ncalls + 1):
            calls[i - 1]["deps"] = [root] * rng.choice([1, 1, 2])
    case = {"calls": calls}
    if inner_block:
        case["mode"] = "dep-block"
        case["max_workers"] = rng.choice([1, 1, 2])
    else:
        case["mode"] = "dep-step"
        if rng.random() < 0.6:
            case["max_cores"] = rng.choice([1, 2, 3])
        else:
            case["max_workers"] = rng.choice([1, 2])
    ops, pending, submitted, nshut = [], list(range(1, ncalls + 1)), [], 0
    while True:
        r = rng.random()
        if pending and r < 0.55:
            i = pending.pop(0)
            ops.append(["submit", i])
            submitted.append(i)
        elif submitted and r < 0.63:
            ops.append(["cancel", rng.choice(submitted)])
        elif submitted and r < 0.73:
            ops.append(["result", rng.choice(submitted)])
        elif r < 0.85 and nshut < 2:
            ops.append(["exit"] if rng.random() < 0.2 else ["shutdown", rng.random() < 0.6, rng.random() < 0.4])
            nshut += 1
        elif not pending or rng.random() < 0.2:
            break
        if len(ops) > 12:
            break
    case["ops"] = ops
    return case


def coq_expr_d(case, res):
    rs = [i + 1 for i, c in enumerate(case["calls"]) if c.get("raises")]
    slots = [1 for _ in case["calls"]]
    deps = ["[%s]" % "; ".join(str(d) for d in c.get("deps", [])) for c in case["calls"]]
    picks = [tid_coq_x(t[1]) for t in res["trace"]]
    enc = lambda v: 0 if v is None else v + 1  # noqa
    inner = 0 if case["mode"] == "dep-step" else case["max_workers"] + 1
    mc, mw = (case.get("max_cores"), case.get("max_workers")) if case["mode"] == "dep-step" else (None, None)
    return "(dreplay_case %d [%s] [%s] [%s] %d %d %d [%s] [%s])%%nat" % (
        inner, "; ".join(str(r) for r in rs), "; ".join(str(x) for x in slots), "; ".join(deps), enc(mc), enc(mw),
        len(case["calls"]), "; ".join(op_coq(o) for o in case["ops"]), "; ".join(picks))


def impl_lines_d(case, res):
    lines = impl_lines_x(case, res)
    out = []
    for ln in lines[:-1]:
        parts = ln.split("|")
        lab = parts[2].split(" ")
        if lab[0] == "setexc":
            lab[2] = "ValueError"
        parts[2] = " ".join(lab)
        out.append("|".join(parts))
    fin = lines[-1]
    ents = res["ents"]
    if "R" in ents:
        st, exc = ents["R"]
        rs = "live" if st not in ("done", "killed") else ("dead" if exc else "done")
    else:
        rs = "none"
    fin = fin.replace("|disp=", "|res=%s|disp=" % rs)
    import re
    fin = re.sub(r"exc:\w+", "exc:ValueError", fin)
    out.append(fin)
    return out


# ------------------------------------------------------------------ block executor with cache_directory
# _execute_task_with_cache instead of _execute_task: with distinct calls (every lookup a miss) it
# must behave like _execute_task apart from the directory / HDF5 operations, so the run is compared
# with Model/Exec.v after projecting those operations away (enabled sets are not compared: a
# thread parked at a directory operation is enabled where the model's is already at the next point)
FS_LABELS = ("h5", "listdir", "exists", "rename", "remove", "iofault")


def gen_ublock_case(rng, max_calls=4, allow_fail=True):
    """block executor where one call has an argument that cannot be pickled: the request fails in
    the worker thread before it reaches the process (judged by the oracles only)"""
    c = gen_block_case(rng, max_calls=max(1, max_calls), allow_fail=False)
    while not c["calls"]:
        c = gen_block_case(rng, max_calls=max(1, max_calls), allow_fail=False)
    c["calls"][rng.randrange(len(c["calls"]))]["unpicklable"] = True
    c["iofault_fired"] = True          # counts as a failing call; no lockstep
    return c


def gen_cblock_case(rng, max_calls=4, allow_fail=True, dups=False):
    c = gen_block_case(rng, max_calls=max_calls, allow_fail=allow_fail)
    c["cache"] = True
    if dups and rng.random() < 0.6:
        # identical calls: hits, and identical calls in flight together
        for i in range(2, len(c["calls"]) + 1):
            if rng.random() < 0.5:
                j = rng.randrange(1, i)
                j = c["calls"][j - 1].get("same_as", j)
                c["calls"][i - 1] = {"raises": c["calls"][j - 1].get("raises", False), "same_as": j}
    if rng.random() < 0.3:
        c["iofault"] = rng.randint(1, 14)      # the k-th HDF5 operation fails (disk full)
    return c


def project_fs(res):
    r = dict(res)
    r["trace"] = [t for t in res["trace"] if t[2][0] not in FS_LABELS]
    return r


def coq_expr_c(case, res):
    return coq_expr(case, project_fs(res))


def impl_lines_c(case, res):
    return impl_lines(case, project_fs(res))


def compare_noen(case, res, coq_out):
    if res["verdict"] not in ("done", "deadlock", "quiescent"):
        return {"kind": "harness", "verdict": res["verdict"], "error": res.get("error")}
    drop = lambda ln: ln if ln.startswith("F|") else ln.split("|", 1)[1]  # noqa
    il = [drop(x) for x in impl_lines_c(case, res)]
    ml = [drop(x) for x in coq_out.split(";")]
    for k, (a, b) in enumerate(zip(il, ml)):
        if a != b:
            return {"kind": "diverge", "step": k, "impl": a, "model": b, "prefix": il[max(0, k - 6):k]}
    if len(il) != len(ml):
        return {"kind": "length", "impl": len(il), "model": len(ml), "impl_tail": il[-2:], "model_tail": ml[-2:]}
    return None


# ------------------------------------------------------------------ file-based executor (Model/FileExec.v)
def gen_fexec_case(rng, max_calls=4, allow_fail=True):
    """single session, no crash: calls with Future arguments (deps), repeated identical calls
    (same_as), and the whole client alphabet (submit / cancel / result / shutdown / exit / drop)"""
    n = rng.randint(0, max_calls)
    calls = []
    for i in range(1, n + 1):
        c = {"args": [rng.randint(0, 2)], "deps": []}
        if i > 1 and rng.random() < 0.45:
            c["deps"] = sorted(rng.sample(range(1, i), rng.randint(1, min(2, i - 1))))
            if rng.random() < 0.2:
                c["deps"].append(c["deps"][0])                 # the same future twice
        if i > 1 and rng.random() < 0.3:
            j = rng.randrange(1, i)
            if not calls[j - 1].get("same_as"):
                c = {"args": list(calls[j - 1]["args"]), "deps": list(calls[j - 1]["deps"]), "same_as": j}
        calls.append(c)
    ops, pending, submitted, nshut = [], list(range(1, n + 1)), [], 0
    nocancel = rng.random() < 0.5
    while True:
        r = rng.random()
        if pending and r < 0.55:
            i = pending.pop(0)
            j = calls[i - 1].get("same_as")
            if j and j in submitted and rng.random() < 0.6:
                ops.append(["result", j])                      # the identical call has completed before it is submitted again
            ops.append(["submit", i])
            submitted.append(i)
        elif submitted and r < 0.60 and not nocancel:
            ops.append(["cancel", rng.choice(submitted)])
        elif submitted and r < 0.75:
            ops.append(["result", rng.choice(submitted)])
        elif r < 0.85 and nshut < 2:
            ops.append(["exit"] if rng.random() < 0.2 else ["shutdown", rng.random() < 0.7, (not nocancel) and rng.random() < 0.3])
            nshut += 1
        elif not pending or rng.random() < 0.2:
            break
        if len(ops) > 12:
            break
    return {"mode": "file", "calls": calls, "ops": ops, "nocancel": nocancel}


def tid_coq_f(name):
    if name == "M":
        return "TM"
    if name == "F":
        return "TD"
    return "(TP %s)" % name[1:]


def coq_expr_f(case, res):
    deps = ["[%s]" % "; ".join(str(d) for d in c.get("deps", [])) for c in case["calls"]]
    canon = [str(c.get("same_as", i + 1)) for i, c in enumerate(case["calls"])]
    picks = [tid_coq_f(t[1]) for t in res["trace"]]
    return "(freplay_case [%s] [%s] %d [%s] [%s])%%nat" % (
        "; ".join(deps), "; ".join(canon), len(case["calls"]), "; ".join(op_coq(o) for o in case["ops"]), "; ".join(picks))


def impl_lines_f(case, res):
    lines = ["%s|%s|%s" % (",".join(en), pick, " ".join(str(x) for x in lab)) for en, pick, lab in res["trace"]]
    nf = len(case["calls"])
    futs = [res["futures"].get(str(i), "pending") for i in range(1, nf + 1)]
    outs = [x for x in (outcome_str(o) for o in res["outcomes"]) if x is not None]
    ents = res["ents"]
    pnames = sorted(res["procs"], key=lambda n: int(n[1:]))
    ps = ["alive" if res["procs"][n]["alive"] else "exited" for n in pnames]
    q = ["%d:%s" % (x["unf"], ".".join(x["items"])) for x in res["queues"]]
    if "F" in ents:
        st, exc = ents["F"]
        loop = "live" if st not in ("done", "killed") else ("dead" if exc else "done")
    else:
        loop = "none"
    lines.append("F|en=%s|futs=%s|outs=%s|main=%s|loop=%s|ps=%s|q=%s|nfiles=%d" % (
        ",".join(res.get("enabled_final", [])), ",".join(futs), ",".join(outs), "end" if ents["M"][0] == "done" else "live", loop,
        ",".join(ps), ",".join(q), res.get("nfiles", len(res.get("dir", {})))))
    return lines


def fexec_sessions(case):
    return case.get("sessions") or [{"ops": case["ops"]}]


def fexec_lockstep_ok(case):
    """crash kinds the model has: a call process killed from outside, or the whole session ending"""
    for s in fexec_sessions(case):
        cr = s.get("crash")
        if cr and not (cr["entity"] == "ALL" or cr["entity"].startswith("P")):
            return False
    return True


def split_sessions(case, res):
    """per session: trace entries renumbered to session-local queue 0 and process numbers"""
    bounds, prev = [], 0
    for so in res["sessions"]:
        bounds.append((prev, so["steps"]))
        prev = so["steps"]
    out, seen_p = [], 0
    for si, (a, b) in enumerate(bounds):
        off = seen_p
        ren = lambda n, off=off: ("P%d" % (int(n[1:]) - off)) if isinstance(n, str) and n[:1] == "P" and n[1:].isdigit() else n  # noqa
        entries = []
        for en, pick, lab in res["trace"][a:b]:
            lab = list(lab)
            if lab[0] == "crash" and lab[1] == "ALL":
                continue
            if lab[0] in ("spawn", "ppoll", "pterm", "crash"):
                if lab[0] == "spawn":
                    seen_p = max(seen_p, int(lab[1][1:]))
                lab[1] = ren(lab[1])
            if lab[0] in ("put", "get", "getnw", "td", "qjoin"):
                lab[1] = lab[1] - si
            entries.append(([ren(e) for e in en], ren(pick), lab))
        out.append(entries)
    return out


def coq_expr_fs(case, res):
    deps = ["[%s]" % "; ".join(str(d) for d in c.get("deps", [])) for c in case["calls"]]
    canon = [str(c.get("same_as", i + 1)) for i, c in enumerate(case["calls"])]
    sess = []
    for s, entries in zip(fexec_sessions(case), split_sessions(case, res)):
        picks = []
        for en, pick, lab in entries:
            picks.append("PCrash %s" % pick[1:] if lab[0] == "crash" else "PK %s" % tid_coq_f(pick))
        sess.append("([%s], [%s])" % ("; ".join(op_coq(o) for o in s["ops"]), "; ".join(picks)))
    return "(fsessions_case [%s] [%s] %d [%s])%%nat" % ("; ".join(deps), "; ".join(canon), len(case["calls"]), "; ".join(sess))


def impl_lines_fs(case, res):
    lines = []
    parts = split_sessions(case, res)
    for si, entries in enumerate(parts):
        for en, pick, lab in entries:
            lines.append("%s|%s|%s" % (",".join(en), pick, " ".join(str(x) for x in lab)))
        if si < len(parts) - 1:
            lines.append("S|nfiles=%d" % res["sessions"][si].get("nfiles", -1))
    last = res["sessions"][-1]
    nf = len(case["calls"])
    futs = [res["futures"].get(str(i), "pending") for i in range(1, nf + 1)]
    # futures of earlier sessions belong to dead interpreters: the model starts every session with fresh ones
    mine = {o[1] for o in fexec_sessions(case)[-1]["ops"] if o[0] == "submit"}
    futs = [f if (i + 1) in mine else "pending" for i, f in enumerate(futs)]
    outs = [x for x in (outcome_str(o) for o in last["outcomes"]) if x is not None]
    ents = res["ents"]
    # processes of the last session only
    nprev = 0
    a = res["sessions"][-2]["steps"] if len(res["sessions"]) > 1 else 0
    for en, pick, lab in res["trace"][:a]:
        if lab[0] == "spawn":
            nprev = max(nprev, int(lab[1][1:]))
    pnames = sorted([n for n in res["procs"] if int(n[1:]) > nprev], key=lambda n: int(n[1:]))
    ps = ["alive" if res["procs"][n]["alive"] else "exited" for n in pnames]
    q = ["%d:%s" % (x["unf"], ".".join(x["items"])) for x in res["queues"][-1:]]
    if "F" in ents:
        st, exc = ents["F"]
        loop = "live" if st not in ("done", "killed") else ("dead" if exc else "done")
    else:
        loop = "none"
    nprev_names = {"P%d" % k for k in range(1, nprev + 1)}
    en_final = [("P%d" % (int(n[1:]) - nprev)) if n[:1] == "P" and n[1:].isdigit() else n
                for n in res.get("enabled_final", []) if n not in nprev_names]
    lines.append("F|en=%s|futs=%s|outs=%s|main=%s|loop=%s|ps=%s|q=%s|nfiles=%d" % (
        ",".join(en_final), ",".join(futs), ",".join(outs), "end" if ents["M"][0] == "done" else "live", loop,
        ",".join(ps), ",".join(q), res.get("nfiles", -1)))
    return lines


# ------------------------------------------------------------------ per-call executor with cache_directory
def gen_cstep_case(rng, max_calls=4, allow_fail=True):
    c = gen_step_case(rng, max_calls=max_calls, allow_fail=allow_fail)
    c["cache"] = True
    return c


def coq_expr_cx(case, res):
    return coq_expr_x(case, project_fs(res))


def impl_lines_cx(case, res):
    return impl_lines_x(case, project_fs(res))


def compare_noen_lines(il, coq_out, cut=None):
    drop = lambda ln: ln if ln.startswith("F|") else ln.split("|", 1)[1]  # noqa
    ml = coq_out.split(";")
    if cut is not None:
        il, ml = il[:cut + 1], ml[:cut + 1]
    il = [drop(x) for x in il]
    ml = [drop(x) for x in ml]
    for k, (a, b) in enumerate(zip(il, ml)):
        if a != b:
            return {"kind": "diverge", "step": k, "impl": a, "model": b, "prefix": il[max(0, k - 6):k]}
    if len(il) != len(ml):
        return {"kind": "length", "impl": len(il), "model": len(ml), "impl_tail": il[-2:], "model_tail": ml[-2:]}
    return None


# ------------------------------------------------------------------ cached block executor (Model/CacheExec.v)
def cexec_sessions(case):
    return case.get("sessions") or [{"ops": case["ops"]}]


def cexec_lockstep_ok(case):
    if case.get("iofault"):
        return False
    for s in cexec_sessions(case):
        cr = s.get("crash")
        if cr and not (cr["entity"] == "ALL" or cr["entity"].startswith("W")):
            return False
    return True


def split_sessions_c(case, res):
    """per session: trace entries renumbered to session-local queue 0, worker and process numbers"""
    import re as _re
    bounds, prev = [], 0
    for so in res["sessions"]:
        bounds.append((prev, so["steps"]))
        prev = so["steps"]
    out, seen_p, seen_w = [], 0, 0
    for si, (a, b) in enumerate(bounds):
        offp, offw = seen_p, seen_w

        def ren(n, offp=offp, offw=offw):
            if isinstance(n, str):
                m = _re.match(r"^([WPSC])(\d+)$", n)
                if m:
                    k = int(m.group(2)) - (offw if m.group(1) == "W" else offp)
                    return "%s%d" % (m.group(1), k)
            return n
        entries = []
        for en, pick, lab in res["trace"][a:b]:
            lab = list(lab)
            if lab[0] == "crash" and lab[1] == "ALL":
                continue
            if lab[0] == "spawn":
                seen_p = max(seen_p, int(lab[1][1:]))
            if lab[0] == "tstart" and str(lab[1]).startswith("W"):
                seen_w = max(seen_w, int(lab[1][1:]))
            if lab[0] in ("put", "get", "getnw", "td", "qjoin"):
                lab[1] = lab[1] - si
            elif lab[0] in ("tstart", "tjoin", "spawn", "ppoll", "pcomm", "pterm", "pwait", "crash", "zsend", "zrecv"):
                lab[1] = ren(lab[1])
            entries.append(([ren(e) for e in en], ren(pick), lab))
        out.append(entries)
    return out, (seen_w, seen_p)


def coq_expr_cc(case, res):
    canon = [str(c.get("same_as", i + 1)) for i, c in enumerate(case["calls"])]
    rs = [i + 1 for i, c in enumerate(case["calls"]) if c.get("raises")]
    parts, _ = split_sessions_c(case, res)
    sess = []
    for s, entries in zip(cexec_sessions(case), parts):
        picks = []
        for en, pick, lab in entries:
            picks.append("CCrashW %s" % pick[1:] if lab[0] == "crash" else "CK %s" % tid_coq(pick))
        sess.append("([%s], [%s])" % ("; ".join(op_coq(o) for o in s["ops"]), "; ".join(picks)))
    return "(csessions_case %d [%s] [%s] %d [%s])%%nat" % (
        case.get("workers", 1), "; ".join(str(x) for x in rs), "; ".join(canon), len(case["calls"]), "; ".join(sess))


def impl_lines_cc(case, res):
    lines = []
    parts, _ = split_sessions_c(case, res)
    for si, entries in enumerate(parts):
        for en, pick, lab in entries:
            lines.append("%s|%s|%s" % (",".join(en), pick, " ".join(str(x) for x in lab)))
        if si < len(parts) - 1:
            lines.append("S|nfiles=%d" % res["sessions"][si].get("nfiles", -1))
    last = res["sessions"][-1]
    nf = len(case["calls"])
    mine = {o[1] for o in cexec_sessions(case)[-1]["ops"] if o[0] == "submit"}
    futs = [res["futures"].get(str(i), "pending") if i in mine else "pending" for i in range(1, nf + 1)]
    futs = [{"exc:ValueError": "exc:ValueError"}.get(f, f) for f in futs]
    outs = [x for x in (outcome_str(o) for o in last["outcomes"]) if x is not None]
    a = res["sessions"][-2]["steps"] if len(res["sessions"]) > 1 else 0
    nprev_p = nprev_w = 0
    for en, pick, lab in res["trace"][:a]:
        if lab[0] == "spawn":
            nprev_p = max(nprev_p, int(lab[1][1:]))
        if lab[0] == "tstart" and str(lab[1]).startswith("W"):
            nprev_w = max(nprev_w, int(lab[1][1:]))
    ents = res["ents"]
    wnames = sorted([n for n in ents if n[0] == "W" and int(n[1:]) > nprev_w], key=lambda n: int(n[1:]))
    ws = []
    for n in wnames:
        st, exc = ents[n]
        ws.append("live" if st not in ("done", "killed") else ("dead" if exc else "done"))
    pnames = sorted([n for n in res["procs"] if int(n[1:]) > nprev_p], key=lambda n: int(n[1:]))
    ps = ["alive" if res["procs"][n]["alive"] else "exited" for n in pnames]
    q = ["%d:%s" % (x["unf"], ".".join(x["items"])) for x in res["queues"][-1:]]
    import re as _re

    def ren(n):
        m = _re.match(r"^([WP])(\d+)$", n)
        return "%s%d" % (m.group(1), int(m.group(2)) - (nprev_w if m.group(1) == "W" else nprev_p)) if m else n
    en_final = [ren(n) for n in res.get("enabled_final", [])]
    lines.append("F|en=%s|futs=%s|outs=%s|main=%s|ws=%s|ps=%s|q=%s|nfiles=%d" % (
        ",".join(en_final), ",".join(futs), ",".join(outs), "end" if ents["M"][0] == "done" else "live",
        ",".join(ws), ",".join(ps), ",".join(q), res.get("nfiles", -1)))
    return lines


def gen_cblockd_case(rng, max_calls=4, allow_fail=True):
    """cached block executor with identical calls (hits, identical calls in flight), no failing calls, no I/O fault"""
    c = gen_cblock_case(rng, max_calls=max_calls, allow_fail=False, dups=True)
    c.pop("iofault", None)
    return c
