"""Real-process slice (DESIGN.md 3.4, minimal): real zmq, real subprocesses, real interpreter exit.
Used as additional oracles by C01 (by-value pickling across modules), C12 (no ghost processes
after the submitting interpreter ends) and C17 (pipelined requests on the real wire).  A timeout
is reported as a failure only together with positive evidence (the peer has exited / the parent
interpreter is gone); otherwise it is 'inconclusive'."""
import json
import os
import subprocess
import sys
import tempfile
import textwrap
import time

REPO = os.environ.get("VERIF_REPO", "/repo")
PY = "/venv/bin/python"


def _env():
    e = dict(os.environ)
    e["PYTHONPATH"] = REPO
    e["PYTHONDONTWRITEBYTECODE"] = "1"
    return e


def _run_script(src, timeout=60, cwd=None):
    with tempfile.TemporaryDirectory(prefix="verif-real-") as d:
        path = os.path.join(d, "script.py")
        with open(path, "w") as fh:
            fh.write(textwrap.dedent(src))
        # output goes to files, not pipes: an orphaned worker inheriting a pipe would keep run() waiting
        with open(os.path.join(d, "out.txt"), "w") as fo, open(os.path.join(d, "err.txt"), "w") as fe:
            try:
                p = subprocess.run([PY, path], cwd=cwd or d, env=_env(), stdout=fo, stderr=fe, stdin=subprocess.DEVNULL, timeout=timeout)
                rc = p.returncode
            except subprocess.TimeoutExpired:
                rc = 124
        out = open(os.path.join(d, "out.txt")).read()
        err = open(os.path.join(d, "err.txt")).read() if rc != 124 else "TIMEOUT"
        return rc, out, err


WIRE = r'''
import json, sys, time
import cloudpickle, zmq
from executorlib.standalone.interactive.communication import SocketInterface
from executorlib.standalone.interactive.spawner import SubprocessSpawner
from executorlib.standalone.command import get_command_path

def big(i, n):
    return (i, "x" * n)

def boom(i):
    raise ValueError(i)

sp = SubprocessSpawner()
si = SocketInterface(spawner=sp)
port = si.bind_to_random_port()
si.bootup(command_lst=[sys.executable, get_command_path(executable="interactive_serial.py"), "--zmqport", str(port)])
reqs = REQS
expect = []
for k, (kind, n) in enumerate(reqs):
    if kind == "big":
        si.send_dict({"fn": big, "args": (k, n), "kwargs": {}})
        expect.append(("res", k))
    elif kind == "boom":
        si.send_dict({"fn": boom, "args": (k,), "kwargs": {}})
        expect.append(("err", k))
    elif kind == "init":
        si.send_dict({"init": True, "fn": (lambda: {"zz": 1}), "args": (), "kwargs": {}})
si.send_dict({"shutdown": True, "wait": True})
expect.append(("ack", None))
got = []
time.sleep(DELAY)
poller = zmq.Poller()
poller.register(si._socket, zmq.POLLIN)
deadline = time.time() + 40
while len(got) < len(expect) and time.time() < deadline:
    ev = dict(poller.poll(500))
    if si._socket in ev:
        d = cloudpickle.loads(si._socket.recv())
        if "result" in d and d["result"] is True:
            got.append(("ack", None))
        elif "result" in d:
            got.append(("res", d["result"][0]))
        else:
            got.append(("err", d["error"].args[0]))
    elif sp._process.poll() is not None and not dict(poller.poll(300)):
        break
exited = None
try:
    exited = sp._process.wait(timeout=10)
except Exception:
    pass
print(json.dumps({"expect": expect, "got": got, "worker_exit": exited}))
si._socket.close(linger=0)
'''


def wire_case(rng):
    reqs = []
    for _ in range(rng.randint(2, 7)):
        r = rng.random()
        if r < 0.65:
            huge = sum(1 for k, n in reqs if n >= 30000000)
            reqs.append(("big", rng.choice([10, 1000, 200000, 2000000] + ([33000000, 48000000] if huge < 3 else []))))
        elif r < 0.85:
            reqs.append(("boom", 0))
        else:
            reqs.append(("init", 0))
    delay = rng.choice([0, 0, 1.5])      # the parent may start reading late (pipelined requests)
    rc, out, err = _run_script(WIRE.replace("REQS", repr(reqs)).replace("DELAY", repr(delay)), timeout=120)
    try:
        d = json.loads(out.strip().split("\n")[-1])
    except Exception:  # noqa
        return {"case": reqs, "status": "inconclusive", "why": "driver produced no result (rc=%s): %s" % (rc, err[-300:])}
    exp = [tuple(x) for x in d["expect"]]
    got = [tuple(x) for x in d["got"]]
    if got == exp:
        return {"case": reqs, "status": "ok"}
    if got != exp[:len(got)]:
        return {"case": reqs, "status": "fail", "why": "replies %r do not answer the requests in order: expected %r" % (got, exp)}
    if d["worker_exit"] is not None:
        return {"case": reqs, "status": "fail",
                "why": "the worker exited (code %r) after %d of %d replies: the replies to %r were lost" % (
                    d["worker_exit"], len(got), len(exp), exp[len(got):])}
    return {"case": reqs, "status": "inconclusive", "why": "only %d of %d replies within the time limit, worker still running" % (len(got), len(exp))}


GHOST = r'''
import os, sys, time
from executorlib import Executor

def pid_after(t):
    import os, time
    time.sleep(t)
    return os.getpid()

exe = Executor(max_workers=2, backend="local", block_allocation=BLOCK, disable_dependencies=True, hostname_localhost=True)
futs = [exe.submit(pid_after, 0.05) for _ in range(3)]
pids = sorted({f.result() for f in futs})
more = [exe.submit(pid_after, 0.3) for _ in range(2)]
print("PIDS", " ".join(str(p) for p in pids), flush=True)
MODE
'''


def ghost_case(rng):
    block = rng.choice([True, False])
    mode = rng.choice(["exe.shutdown(wait=False)", "del exe", "exe.shutdown(wait=False, cancel_futures=True)"])
    src = GHOST.replace("BLOCK", str(block)).replace("MODE", mode)
    rc, out, err = _run_script(src, timeout=60)
    pids = []
    for line in out.split("\n"):
        if line.startswith("PIDS"):
            pids = [int(x) for x in line.split()[1:]]
    case = {"block_allocation": block, "ending": mode}
    if rc == 124:
        return {"case": case, "status": "inconclusive", "why": "the submitting interpreter did not end within 60 s"}
    if not pids:
        return {"case": case, "status": "inconclusive", "why": "no worker pids reported (rc=%s) %s" % (rc, err[-300:])}
    deadline = time.time() + 40
    alive = pids
    while time.time() < deadline:
        alive = [p for p in pids if os.path.exists("/proc/%d" % p) and "interactive_" in open("/proc/%d/cmdline" % p).read()]
        if not alive:
            return {"case": case, "status": "ok"}
        time.sleep(0.5)
    for p in alive:
        try:
            os.kill(p, 9)
        except OSError:
            pass
    return {"case": case, "status": "fail",
            "why": "the submitting interpreter has ended (exit %s) but worker processes %r are still running 40 s later" % (rc, alive)}


BYVALUE = r'''
import json, os, sys
d = os.path.dirname(os.path.abspath(__file__))
for name in ("mod_a", "mod_b"):
    with open(os.path.join(d, name + ".py"), "w") as fh:
        fh.write("""
from executorlib import Executor
from executorlib.standalone.serialize import cloudpickle_register
FACTOR = 1
def scaled(x):
    return x * FACTOR
def run(values):
    cloudpickle_register(ind=1)      # the documented idiom: ship this module by value
    with Executor(max_workers=1, backend="local", block_allocation=BLOCK, hostname_localhost=True) as exe:
        out = []
        for f in [exe.submit(scaled, v) for v in values]:
            try:
                out.append(f.result(timeout=40))
            except BaseException as e:
                out.append("raised " + type(e).__name__ + ": " + str(e)[:80])
        return out
""".replace("BLOCK", "BLOCKVAL"))
sys.path.insert(0, d)
import mod_a, mod_b
mod_a.FACTOR = 5          # run-time state of the submitting modules
mod_b.FACTOR = 7
ORDER
print(json.dumps({"a": ra, "b": rb, "direct_a": [mod_a.scaled(v) for v in [1, 2]], "direct_b": [mod_b.scaled(v) for v in [1, 2]]}))
'''


def byvalue_case(rng):
    block = rng.choice([True, False])
    order = rng.choice(["ra = mod_a.run([1, 2]); rb = mod_b.run([1, 2])", "rb = mod_b.run([1, 2]); ra = mod_a.run([1, 2])"])
    src = BYVALUE.replace("BLOCKVAL", str(block)).replace("ORDER", order)
    rc, out, err = _run_script(src, timeout=90)
    case = {"block_allocation": block, "order": order.split(";")[0][:2]}
    try:
        d = json.loads(out.strip().split("\n")[-1])
    except Exception:  # noqa
        return {"case": case, "status": "inconclusive", "why": "no result (rc=%s): %s" % (rc, err[-300:])}
    if d["a"] != d["direct_a"] or d["b"] != d["direct_b"]:
        return {"case": case, "status": "fail",
                "why": "futures yield a=%r b=%r, calling the functions directly gives a=%r b=%r" % (d["a"], d["b"], d["direct_a"], d["direct_b"])}
    return {"case": case, "status": "ok"}


STATE = r'''
import json, os
from executorlib import Executor

def bump(tag):
    import builtins, os
    n = getattr(builtins, "_verif_counter", 0) + 1
    builtins._verif_counter = n
    return [os.getpid(), n, tag]

out = {}
with Executor(max_workers=NW, backend="local", block_allocation=False, disable_dependencies=DISDEP, hostname_localhost=True) as exe:
    out["percall"] = [f.result(timeout=60) for f in [exe.submit(bump, k) for k in range(NCALLS)]]
with Executor(max_workers=1, backend="local", block_allocation=True, disable_dependencies=DISDEP, hostname_localhost=True) as exe:
    out["block1"] = [f.result(timeout=60) for f in [exe.submit(bump, k) for k in range(NCALLS)]]
print(json.dumps(out))
'''


def state_case(rng):
    nw, ncalls, disdep = rng.choice([1, 2, 3]), rng.choice([3, 4, 5]), rng.choice([True, False])
    src = STATE.replace("NW", str(nw)).replace("NCALLS", str(ncalls)).replace("DISDEP", str(disdep))
    rc, out, err = _run_script(src, timeout=120)
    case = {"max_workers": nw, "calls": ncalls, "disable_dependencies": disdep}
    try:
        d = json.loads(out.strip().split("\n")[-1])
    except Exception:  # noqa
        return {"case": case, "status": "inconclusive", "why": "no result (rc=%s): %s" % (rc, err[-300:])}
    pc, b1 = d["percall"], d["block1"]
    if any(n != 1 for pid, n, tag in pc) or len({pid for pid, n, tag in pc}) != len(pc):
        return {"case": case, "status": "fail",
                "why": "per-call mode: calls saw interpreter state of other calls or shared a process: (pid, counter, call) = %r" % (pc,)}
    if [n for pid, n, tag in b1] != list(range(1, ncalls + 1)) or len({pid for pid, n, tag in b1}) != 1 or [t for p, n, t in b1] != list(range(ncalls)):
        return {"case": case, "status": "fail",
                "why": "block allocation, one worker: not one persistent process executing the calls in submission order: %r" % (b1,)}
    return {"case": case, "status": "ok"}


EXC = r'''
import json, sys
from executorlib import Executor

class ScriptError(Exception):
    pass

class WithFields(ValueError):
    def __init__(self, code, msg):
        super().__init__(code, msg)
        self.code = code

def boom(kind, a, b):
    import json as _j
    if kind == 0:
        raise ScriptError(a, b)
    if kind == 1:
        raise WithFields(a, b)
    if kind == 2:
        raise KeyError(a)
    if kind == 3:
        _j.loads("{bad")
    if kind == 4:
        raise FileNotFoundError(2, b)
    return (a, b)

out = []
try:
    with Executor(max_workers=NW, backend="local", block_allocation=BLOCK, disable_dependencies=DISDEP, hostname_localhost=True) as exe:
        for kind in KINDS:
            f = exe.submit(boom, kind, 7, "msg")
            try:
                out.append(["value", repr(f.result(timeout=60))])
            except BaseException as e:
                out.append([type(e).__name__, repr(e.args)])
            if BLOCK:
                break          # a failing call ends a block-allocation worker: one call per executor here
except BaseException:
    pass                       # leaving the with-block re-raises the failed call's exception (block allocation)
print(json.dumps(out))
'''


def exc_case(rng):
    block, disdep = rng.choice([True, False]), rng.choice([True, False])
    nw = 1 if block else rng.choice([1, 2])      # several block workers + a failing call: known finding D23 (shutdown blocks)
    kinds = [rng.randrange(0, 6) for _ in range(3)]
    src = EXC.replace("NW", str(nw)).replace("BLOCK", str(block)).replace("DISDEP", str(disdep)).replace("KINDS", repr(kinds))
    rc, out, err = _run_script(src, timeout=120)
    case = {"block_allocation": block, "disable_dependencies": disdep, "max_workers": nw, "kinds": kinds}
    try:
        got = json.loads(out.strip().split("\n")[-1])
    except Exception:  # noqa
        return {"case": case, "status": "inconclusive", "why": "no result (rc=%s): %s" % (rc, err[-300:])}
    exp = {0: ["ScriptError", "(7, 'msg')"], 1: ["WithFields", "(7, 'msg')"], 2: ["KeyError", "(7,)"],
           3: ["JSONDecodeError", None], 4: ["FileNotFoundError", "(2, 'msg')"], 5: ["value", "(7, 'msg')"]}
    for k, g in zip(kinds, got):
        e = exp[k]
        if g[0] != e[0] or (e[1] is not None and g[1] != e[1]):
            return {"case": case, "status": "fail",
                    "why": "call raising kind %d: the future reports %s%s, the function raised %s%s" % (k, g[0], g[1], e[0], e[1] or "(...)")}
    return {"case": case, "status": "ok"}


def run_slice(kind, rng, n):
    fn = {"wire": wire_case, "ghost": ghost_case, "byvalue": byvalue_case, "state": state_case, "exc": exc_case}[kind]
    return [fn(rng) for _ in range(n)]


if __name__ == "__main__":
    import random
    r = random.Random(int(sys.argv[2]) if len(sys.argv) > 2 else 0)
    for x in run_slice(sys.argv[1], r, int(sys.argv[3]) if len(sys.argv) > 3 else 2):
        print(json.dumps(x))
