"""Run one (program, schedule) case of the real executorlib code under the deterministic
simulator and report the trace and the final observation as JSON.

case = {"mode": "block"|"step"|"dep-block"|"dep-step", "workers": N, "max_cores": .., "max_workers": ..,
        "calls": [{"raises": bool, "deps": [call ids], "res": {...}}, ...]   (call ids start at 1),
        "ops": [["submit", i], ["cancel", i], ["result", i], ["shutdown", wait, cancel], ["drop"], ["exit"]],
        "schedule": [ints], "step_limit": int}
"""
import json
import os
import sys
import threading
import traceback

HERE = os.path.dirname(os.path.abspath(__file__))
sys.path.insert(0, HERE)


def make_fn(sim, i, raises):
    def f(*args, **kwargs):
        sim.point(("body", i))
        if raises:
            raise ValueError(i)
        return ("v", i) + tuple(args) + tuple(sorted(kwargs.items()))
    f._sim_id = i
    f.__name__ = "c%dx" % i
    return f


def build_executor(case):
    from executorlib.interactive.shared import InteractiveExecutor, InteractiveStepExecutor
    from executorlib.standalone.interactive.spawner import MpiExecSpawner
    mode = case["mode"]
    ek = dict(case.get("executor_kwargs", {}))
    if case.get("cache") and mode in ("block", "step"):
        ek["cache_directory"] = case["_cache_dir"]
    if mode == "block":
        return InteractiveExecutor(max_workers=case.get("workers", 1), executor_kwargs=ek, spawner=MpiExecSpawner)
    if mode == "step":
        ek.setdefault("cores", 1)
        sp = MpiExecSpawner
        if case.get("spawner") == "srun":
            from executorlib.standalone.interactive.spawner import SrunSpawner as sp
        return InteractiveStepExecutor(max_cores=case.get("max_cores"), max_workers=case.get("max_workers"),
                                       executor_kwargs=ek, spawner=sp)
    if mode == "file":
        from executorlib.cache.executor import FileExecutor
        from executorlib.cache.subprocess_spawner import execute_in_subprocess
        return FileExecutor(cache_directory=case["_cache_dir"], execute_function=execute_in_subprocess,
                            resource_dict=dict(case.get("resource_dict", {})) or None)
    if mode == "exec":
        from executorlib import Executor
        return Executor(**case["kwargs"])
    if mode in ("dep-block", "dep-step"):
        from executorlib import Executor
        return Executor(max_workers=case.get("max_workers"), max_cores=case.get("max_cores"), backend="local",
                        block_allocation=(mode == "dep-block"), hostname_localhost=True,
                        resource_dict=dict(case.get("resource_dict", {})) or None,
                        cache_directory=case.get("cache_directory"))
    raise ValueError(mode)


LEAK = []


def submit_defaults():
    """the shared default objects of the submit() signatures (must stay empty)"""
    out = {}
    try:
        from executorlib.base.executor import ExecutorBase
        from executorlib.interactive.shared import ExecutorBroker
        from executorlib.interactive.executor import ExecutorWithDependencies
        for cls in (ExecutorBase, ExecutorBroker, ExecutorWithDependencies):
            kd = cls.submit.__kwdefaults__ or {}
            out[cls.__name__] = repr(kd.get("resource_dict"))
    except Exception as e:  # noqa
        out["error"] = repr(e)
    return out


def thread_exc(e):
    """exception a finished RaisingThread entity died with (e.exc is filled in by the thread itself
    on its way out; at capture time it may not have got there yet)"""
    th = getattr(e, "thread", None)
    ex = getattr(th, "_exception", None) if th is not None else None
    return type(ex).__name__ if ex is not None else None


def snapshot(ctl, op_index, op):
    """state right after a shutdown / exit operation returned or raised (read without points)"""
    return {"op_index": op_index, "op": list(op), "step": len(ctl.log),
            "futs": {str(f.fid): f.obs() for f in ctl.futures},
            "procs_alive": [p.name for p in ctl.procs if p.alive()],
            "threads_live": [n for n, e in ctl.ents.items() if n[0] in "WDRF" and e.state not in ("done", "killed")]}


def value_repr(f):
    """full Herbrand value of a finished future, nested tuples as lists"""
    from concurrent.futures import Future as _F
    if _F.cancelled(f) or not _F.done(f) or _F.exception(f, timeout=0) is not None:
        return None

    def conv(v):
        if isinstance(v, (list, tuple)):
            return [conv(x) for x in v]
        return v
    return conv(_F.result(f, timeout=0))


def drawn_graphs():
    try:
        import re
        import networkx
        out = []
        for g in networkx.GRAPHS:
            nodes = [[n, re.sub(r"<S?Future at [^>]*>", "<Future>", str(a.get("label"))), a.get("shape")] for n, a in g.nodes_added]
            edges = [[a, b, str(at.get("label"))] for a, b, at in g.edges_added]
            out.append({"nodes": nodes, "edges": edges})
        return out
    except Exception:  # noqa
        return None


def dir_snapshot(d):
    """files of the cache directory with their dataset names (h5py stand-in format)"""
    out = {}
    try:
        import h5py
        import sim
        import hashlib
        for fn in sorted(os.listdir(d)):
            try:
                recs = h5py._read(os.path.join(d, fn))
                out[sim.file_tag(fn)] = [n for n, _ in recs] + ["#" + hashlib.sha1(b"".join(b for _, b in recs)).hexdigest()[:10]]
            except Exception:  # noqa
                out[sim.file_tag(fn)] = ["?"]
    except Exception:  # noqa
        pass
    return out


def run_case(case):
    import shutil
    import tempfile
    import sim
    ctl = sim.install(case.get("schedule", []), case.get("step_limit", 3000))
    ctl.stall_timeout = case.get("stall_timeout", 20)
    calls = case["calls"]
    futs = {}
    fns = {}
    passed = {}
    cache_dir = tempfile.mkdtemp(prefix="verif-sim-")
    case["_cache_dir"] = cache_dir
    sessions = case.get("sessions") or [{"ops": case["ops"], "crash": case.get("crash")}]
    sess_out = []

    def fn_for(i):
        c = calls[i - 1]
        j = c.get("same_as", i)
        if j not in fns:
            fns[j] = make_fn(sim, j, calls[j - 1].get("raises", False))
        return fns[j]

    def program(ops, outcomes, snaps):
        ex = None
        try:
            ex = build_executor(case)
        except Exception as e:  # noqa
            outcomes.append(["construct", "raise:" + type(e).__name__])
            return
        outcomes.append(["construct", "ok"])
        for op in ops:
            kind = op[0]
            try:
                if kind == "submit":
                    i = op[1]
                    c = calls[i - 1]
                    fn = fn_for(i)
                    args = [futs[d] if d in futs else ("missing", d) for d in c.get("deps", [])]
                    args += list(c.get("args", []))
                    for _ in range(int(c.get("nest") or 0)):      # True = one list level, 2 = [[...]]
                        args = [args]
                    if c.get("unpicklable"):
                        args = list(args) + [threading.Lock()]       # cannot be sent to the worker: pickling fails in the thread
                    kw = {}

                    def build(spec):
                        if spec[0] == "v":
                            return spec[1]
                        if spec[0] == "f":
                            return futs[spec[1]]
                        if spec[0] == "t":
                            return tuple(build(x) for x in spec[1])
                        return [build(x) for x in spec[1]]
                    if "argspec" in c:
                        args = [build(x) for x in c["argspec"]]
                        for k2, v2 in c.get("kwspec", []):
                            kw[k2] = build(v2)
                    if c.get("res") is not None:
                        kw["resource_dict"] = json.loads(json.dumps(c["res"]))
                        passed[i] = kw["resource_dict"]
                    ctl.next_fid = i
                    try:
                        futs[i] = ex.submit(fn, *args, **kw)
                    finally:
                        ctl.next_fid = None
                    futs[i]._call_id = i
                    outcomes.append(["submit", i, "ok"])
                elif kind in ("cancel", "result") and op[1] not in futs:
                    outcomes.append([kind, op[1], "skip"])
                elif kind == "cancel":
                    r = futs[op[1]].cancel()
                    outcomes.append(["cancel", op[1], bool(r)])
                elif kind == "result":
                    try:
                        v = futs[op[1]].result()
                        outcomes.append(["result", op[1], "res:" + sim.val_desc(v)])
                    except BaseException as e:  # noqa
                        if isinstance(e, sim.StopSim):
                            raise
                        e.__traceback__ = None
                        from concurrent.futures import Future as _F
                        if _F.cancelled(futs[op[1]]):
                            outcomes.append(["result", op[1], "cancelled"])
                        else:
                            outcomes.append(["result", op[1], "exc:" + type(e).__name__])
                elif kind == "shutdown":
                    try:
                        ex.shutdown(wait=op[1], cancel_futures=op[2])
                    finally:
                        snaps.append(snapshot(ctl, len(outcomes), op))
                    outcomes.append(["shutdown", "ok"])
                elif kind == "exit":
                    try:
                        ex.__exit__(None, None, None)
                    finally:
                        snaps.append(snapshot(ctl, len(outcomes), op))
                    outcomes.append(["exit", "ok"])
                elif kind == "drop":
                    ex = None
                    outcomes.append(["drop", "ok"])
            except sim.StopSim:
                raise
            except Exception as e:  # noqa
                outcomes.append([kind] + list(op[1:2]) + ["raise:" + type(e).__name__])
                if kind in ("shutdown", "exit"):
                    LEAK.append(ex)
        outcomes.append(["end"])

    for si, sess in enumerate(sessions):
        outcomes, snaps = [], []
        ctl.stopped = False
        ctl.verdict = None
        ctl.crash = dict(sess["crash"]) if sess.get("crash") else None
        ctl.iofault = case.get("iofault")
        ctl.session_start = len(ctl.log)
        m = ctl.register("M")

        def mbody(m=m, ops=sess["ops"], outcomes=outcomes, snaps=snaps):
            ctl.bind(m)
            try:
                sim.point(("mbegin",))
                program(ops, outcomes, snaps)
            except sim.StopSim:
                pass
            except BaseException:  # noqa
                outcomes.append(["harness-error", traceback.format_exc()])
            finally:
                ctl.finish(m)

        final = {}

        def capture(final=final):
            by_call = {}
            for f in ctl.futures:
                cid = getattr(f, "_call_id", None)
                if cid is not None:
                    by_call[str(cid)] = f
            final.update({
                "dir": dir_snapshot(cache_dir),
                "nfiles": len(os.listdir(cache_dir)) if os.path.isdir(cache_dir) else 0,
                "futures_by_call": {str(getattr(f, "_call_id", 0) or f.fid): f.obs() for f in ctl.futures},
                "futures": {str(f.fid): f.obs() for f in ctl.futures},
                "values": {str(f.fid): value_repr(f) for f in ctl.futures},
                "call_futures": {k: f.obs() for k, f in by_call.items()},
                "call_values": {k: value_repr(f) for k, f in by_call.items()},
                "ents": {n: [e.state, e.exc if e.exc is not None else thread_exc(e)] for n, e in ctl.ents.items()},
                "procs": {p.name: {"alive": p.alive(), "script": p.script, "cwd": p.cwd, "argv": p.args} for p in ctl.procs},
                "queues": [{"qid": q.qid, "unf": q.unf, "items": [sim.item_desc(i) for i in q.items]} for q in ctl.queues],
                "parked": {k: list(v) for k, v in ctl.parked_ops().items()},
                "enabled_final": [e.name for e in sorted([e for e in ctl.ents.values() if e.state == "parked" and (e.pred is None or e.pred())],
                                                         key=lambda e: sim.ent_key(e.name))],
            })

        ctl.capture = capture
        t = threading.Thread(target=mbody, daemon=True)
        t.start()
        ctl.run()
        if not final:
            capture()
        sess_out.append({"verdict": ctl.verdict, "outcomes": outcomes, "snaps": snaps, "steps": len(ctl.log),
                         "dir": final["dir"], "nfiles": final["nfiles"], "futures": final["futures_by_call"]})
        if si < len(sessions) - 1:
            ctl.kill_all()
    last = sess_out[-1]
    res = {
        "verdict": last["verdict"],
        "trace": [[en, pick, list(lab)] for en, pick, lab in ctl.log],
        "outcomes": last["outcomes"],
        "snaps": last["snaps"],
        "sessions": sess_out,
        "passed_res": {str(i): d for i, d in passed.items()},
        "submit_defaults": submit_defaults(),
        "futures": final["futures"],
        "values": final["values"],
        "call_futures": final["call_futures"],
        "call_values": final["call_values"],
        "ents": final["ents"],
        "procs": final["procs"],
        "queues": final["queues"],
        "parked": final["parked"],
        "enabled_final": final["enabled_final"],
        "blocked_kinds": sorted(ctl.blocked_kinds),
        "dir": final["dir"],
        "nfiles": final["nfiles"],
        "install_error": ctl.extra.get("install_error") or ctl.extra.get("capture_error"),
        "graphs": drawn_graphs(),
    }
    shutil.rmtree(cache_dir, ignore_errors=True)
    return res


def run_forked(case, timeout=60):
    r, w = os.pipe()
    pid = os.fork()
    if pid == 0:
        os.close(r)
        try:
            dn = os.open(os.devnull, os.O_WRONLY)
            os.dup2(dn, 2)       # "Exception ignored in __del__" chatter of killed entities
        except OSError:
            pass
        try:
            out = run_case(case)
        except BaseException:  # noqa
            out = {"verdict": "harness-error", "error": traceback.format_exc()}
        try:
            os.write(w, json.dumps(out).encode())
        finally:
            os._exit(0)
    os.close(w)
    chunks = []
    import select
    import time
    t0 = time.time()
    while True:
        rl, _, _ = select.select([r], [], [], 1.0)
        if rl:
            b = os.read(r, 1 << 16)
            if not b:
                break
            chunks.append(b)
        elif time.time() - t0 > timeout:
            os.kill(pid, 9)
            break
    os.close(r)
    os.waitpid(pid, 0)
    data = b"".join(chunks)
    if not data:
        return {"verdict": "harness-timeout"}
    return json.loads(data)


if __name__ == "__main__":
    case = json.loads(sys.stdin.read())
    print(json.dumps(run_forked(case)))
