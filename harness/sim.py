"""Deterministic simulation of the real executorlib code (DESIGN.md 3.3).

Every synchronisation primitive the library touches is replaced from outside by an
instrumented equivalent.  An *entity* (client thread M, executor threads, worker processes)
parks at a *point* before each visible operation; the controller waits until every live
entity is parked or finished, computes the set of enabled entities, picks one according to
the schedule, logs (enabled, picked, label) and lets it perform the operation plus the
thread-local code up to its next point.  Exactly one entity runs at a time, so a run is a
function of (program, schedule)."""
import collections
import os
import pickle
import queue as _realqueue
import sys
import threading
import types
from concurrent.futures import Future as _RealFuture

ORDER = {"M": 0, "R": 1, "D": 2, "F": 3, "W": 4, "P": 5}
STARVE = 30


def ent_key(name):
    k = name[0]
    n = int(name[1:]) if len(name) > 1 else 0
    return (ORDER[k], n)


class Ent:
    def __init__(self, name):
        self.name = name
        self.state = "running"     # running | parked | done | killed
        self.label = None
        self.pred = None
        self.granted = False
        self.exc = None
        self.poll_streak = 0       # consecutive fruitless polling steps


class StopSim(BaseException):
    pass


class Ctl:
    def __init__(self, schedule, step_limit=4000, fair=True):
        self.cv = threading.Condition()
        self.ents = {}
        self.tls = threading.local()
        self.schedule = list(schedule)
        self.pos = 0
        self.log = []
        self.step_limit = step_limit
        self.verdict = None
        self.counters = collections.Counter()
        self.stopped = False
        self.queues = []
        self.futures = []
        self.procs = []
        self.fn_ids = {}
        self.progress_clock = 0
        self.extra = {}
        self.stall_timeout = 30
        self.crash = None
        self.blocked_kinds = set()
        self.iofault = None      # k: the k-th HDF5 operation of the run fails with OSError (disk full)
        self.h5count = 0
        self.session = 0

    # ---- entity side
    def me(self):
        return getattr(self.tls, "ent", None)

    def register(self, name):
        e = Ent(name)
        self.ents[name] = e
        return e

    def bind(self, ent):
        self.tls.ent = ent

    def point(self, label, pred=None, polling=False):
        """park before a visible operation; label may be a callable evaluated at grant time"""
        e = self.me()
        if e is None or self.stopped:
            return
        if e.state == "killed":
            raise StopSim()
        if isinstance(label, tuple) and label and label[0] in ("h5", "rename"):
            e.persist = getattr(e, "persist", 0) + 1
            cr = self.crash
            if cr and cr.get("entity") == e.name and e.persist > cr.get("after", 0) and not cr.get("done"):
                cr["done"] = True
                with self.cv:
                    e.state = "killed"
                    self.log.append(([], e.name, ("crash", e.name)))
                    self.cv.notify_all()
                raise StopSim()
        with self.cv:
            e.state = "parked"
            e.label = label
            e.pred = pred
            e.polling = polling
            e.granted = False
            self.cv.notify_all()
            while not e.granted:
                self.cv.wait()
                if (self.stopped or e.state == "killed") and not e.granted:
                    raise StopSim()
            if e.state == "killed":
                raise StopSim()
            e.state = "running"
        if self.iofault and isinstance(label, tuple) and label and label[0] == "h5":
            self.h5count += 1
            if self.h5count == self.iofault:
                with self.cv:
                    self.log.append(([], e.name, ("iofault", e.name)))
                raise OSError(28, "No space left on device (injected)")

    def kill_all(self):
        """the submitting process dies: every entity of the current session stops here"""
        with self.cv:
            for e in self.ents.values():
                if e.state != "done":
                    e.state = "killed"
            self.cv.notify_all()

    def finish(self, ent):
        with self.cv:
            if ent.state != "killed":
                ent.state = "done"
            self.cv.notify_all()

    # ---- controller side
    def run(self):
        """drive until all entities are done, nothing is enabled, or only fruitless pollers remain"""
        with self.cv:
            while True:
                import time as _t
                t0 = _t.time()
                while any(e.state == "running" for e in self.ents.values()):
                    self.cv.wait(timeout=1)
                    if any(e.state == "running" for e in self.ents.values()) and _t.time() - t0 > self.stall_timeout:
                        self.verdict = "harness-stall"
                        self.stopped = True
                        self.cv.notify_all()
                        return
                parked = [e for e in self.ents.values() if e.state == "parked"]
                if not parked:
                    self.verdict = "done"
                    break
                enabled = sorted([e for e in parked if e.pred is None or e.pred()], key=lambda e: ent_key(e.name))
                # which kinds of operation some entity has been seen blocked in (e.g. the resolver in result())
                for e in parked:
                    if e not in enabled and not callable(e.label) and isinstance(e.label, tuple) and e.label:
                        self.blocked_kinds.add("%s:%s" % (e.name.rstrip("0123456789"), e.label[0]))
                if not enabled:
                    self.verdict = "deadlock"
                    break
                if len(self.log) - getattr(self, "session_start", 0) >= self.step_limit:
                    self.verdict = "steplimit"
                    break
                cr = self.crash
                if cr and cr.get("entity") == "ALL" and len(self.log) - getattr(self, "session_start", 0) >= cr.get("at_step", 0):
                    self.log.append(([], "M", ("crash", "ALL")))
                    for e in self.ents.values():
                        if e.state != "done":
                            e.state = "killed"
                    self.verdict = "crashed"
                    break
                if all(getattr(e, "polling", False) and e.poll_streak >= self._cycle(e) for e in enabled):
                    # every enabled entity has completed a full fruitless polling pass since
                    # the last progress step: nothing can change any more
                    self.verdict = "quiescent"
                    break
                c = self.schedule[self.pos] if self.pos < len(self.schedule) else 0
                self.pos += 1
                # fairness: an entity that has just completed a fruitless polling pass is not
                # picked again while something else can run
                cands = [e for e in enabled if not (getattr(e, "polling", False) and e.poll_streak >= self._cycle(e))]
                if not cands:
                    cands = enabled
                pick = cands[c % len(cands)]
                # bounded waiting: whatever the schedule says, an entity that has been enabled
                # and passed over for STARVE consecutive steps goes next (weak fairness)
                worst = max(enabled, key=lambda e: (getattr(e, "starve", 0), -ent_key(e.name)[0], -ent_key(e.name)[1]))
                if getattr(worst, "starve", 0) >= STARVE:
                    pick = worst
                for e in self.ents.values():
                    if e in enabled and e is not pick:
                        e.starve = getattr(e, "starve", 0) + 1
                    else:
                        e.starve = 0
                lab = pick.label() if callable(pick.label) else pick.label
                self.log.append(([e.name for e in enabled], pick.name, lab))
                if getattr(pick, "polling", False):
                    pick.poll_streak += 1
                else:
                    for e in self.ents.values():
                        e.poll_streak = 0
                pick.granted = True
                pick.state = "running"
                self.cv.notify_all()
            # the final observation is taken here, before the parked threads are released: they
            # unwind through the code under test (finally blocks, __del__) once `stopped` is set
            if getattr(self, "capture", None):
                try:
                    self.capture()
                except Exception:  # noqa
                    import traceback as _tb
                    self.extra["capture_error"] = _tb.format_exc()
            self.stopped = True
            self.cv.notify_all()

    def _cycle(self, e):
        return getattr(e, "cycle", 4)

    def _stalled(self):
        return True

    def progress(self):
        """called by a polling operation that turned out to change something"""
        e = self.me()
        if e is not None:
            for x in self.ents.values():
                x.poll_streak = 0

    def parked_ops(self):
        out = {}
        for e in self.ents.values():
            if e.state == "parked":
                try:
                    lab = e.label() if callable(e.label) else e.label
                except Exception:  # noqa: label depends on data that is not there (blocked get/recv)
                    lab = ("blocked",)
                out[e.name] = lab
        return out


CTL = None


def point(label, pred=None, polling=False):
    if CTL is not None:
        CTL.point(label, pred, polling)


# ------------------------------------------------------------------ descriptions used in labels
def fn_id(fn):
    return getattr(fn, "_sim_id", None) or getattr(fn, "__name__", "?")


def item_desc(item):
    if isinstance(item, dict):
        if item.get("shutdown"):
            return "S%d" % (1 if item.get("wait") else 0)
        if "future" in item and isinstance(item["future"], SFuture):
            return "T%d" % item["future"].fid
        if "fn" in item:
            return "T%s" % fn_id(item["fn"])
    return "X"


def val_desc(v):
    """values are Herbrand terms ('v', call id, ...) built by the generated functions"""
    try:
        if isinstance(v, (list, tuple)) and len(v) >= 2 and v[0] == "v":
            return "v%d" % v[1]
        if isinstance(v, list) and v and isinstance(v[0], (list, tuple)) and v[0][0] == "v":
            return "v%d*%d" % (v[0][1], len(v))
    except Exception:  # noqa
        pass
    if v is None:
        return "None"
    if v is True:
        return "True"
    return "other"


def msg_desc(payload):
    import cloudpickle
    d = cloudpickle.loads(payload)
    if not isinstance(d, dict):
        return "X"
    if d.get("shutdown"):
        return "shut"
    if d.get("init"):
        return "init"
    if "fn" in d:
        return "call%s" % fn_id(d["fn"])
    if "result" in d:
        return "res:" + val_desc(d["result"])
    if "error" in d:
        return "err:" + type(d["error"]).__name__
    return "X"


# ------------------------------------------------------------------ Queue
class SQueue:
    def __init__(self, maxsize=0):
        self.items = collections.deque()
        self.unf = 0
        self.qid = len(CTL.queues)
        CTL.queues.append(self)

    def put(self, item, block=True, timeout=None):
        point(("put", self.qid, item_desc(item)))
        self.items.append(item)
        self.unf += 1

    def get(self, block=True, timeout=None):
        point(lambda: ("get", self.qid, item_desc(self.items[0])), pred=lambda: len(self.items) > 0)
        return self.items.popleft()

    def get_nowait(self):
        point(lambda: ("getnw", self.qid, item_desc(self.items[0]) if self.items else "E"),
              polling=(len(self.items) == 0))
        if not self.items:
            raise _realqueue.Empty()
        CTL.progress()
        return self.items.popleft()

    def task_done(self):
        point(("td", self.qid))
        if self.unf <= 0:
            raise ValueError("task_done() called too many times")
        self.unf -= 1

    def join(self):
        point(("qjoin", self.qid), pred=lambda: self.unf == 0)

    def qsize(self):
        return len(self.items)

    def empty(self):
        return not self.items


FAKE_QUEUE_MODULE = types.SimpleNamespace(Queue=SQueue, Empty=_realqueue.Empty, LifoQueue=None, Full=_realqueue.Full)


# ------------------------------------------------------------------ Future
class SFuture(_RealFuture):
    def __init__(self):
        super().__init__()
        # the harness names the future after the call it is about to submit (ids stay aligned with
        # call numbers when an earlier session was cut short)
        self.fid = getattr(CTL, "next_fid", None) or (max([f.fid for f in CTL.futures] + [0]) + 1)
        CTL.next_fid = None
        CTL.futures.append(self)

    def cancel(self):
        point(("cancel", self.fid))
        return super().cancel()

    def set_running_or_notify_cancel(self):
        point(("srnc", self.fid))
        return super().set_running_or_notify_cancel()

    def set_result(self, result):
        point(("setres", self.fid, val_desc(result)))
        return super().set_result(result)

    def set_exception(self, exception):
        point(("setexc", self.fid, type(exception).__name__))
        return super().set_exception(exception)

    def done(self):
        st = super().done()
        point(("done?", self.fid), polling=not st)
        st2 = super().done()
        if st2:
            CTL.progress()
        return st2

    def result(self, timeout=None):
        point(("result", self.fid), pred=lambda: _RealFuture.done(self))
        return super().result(timeout=0)

    def exception(self, timeout=None):
        point(("result", self.fid), pred=lambda: _RealFuture.done(self))
        return super().exception(timeout=0)

    # state for observations (no point)
    def obs(self):
        if _RealFuture.cancelled(self):
            return "cancelled"
        if not _RealFuture.done(self):
            return "running" if _RealFuture.running(self) else "pending"
        ex = _RealFuture.exception(self, timeout=0)
        if ex is not None:
            return "exc:" + type(ex).__name__
        return "res:" + val_desc(_RealFuture.result(self, timeout=0))


# ------------------------------------------------------------------ threads
TARGET_KIND = {"execute_parallel_tasks": "W", "execute_separate_tasks": "D",
               "execute_tasks_with_dependencies": "R", "execute_tasks_h5": "F"}


def patch_threads(RaisingThread):
    orig_start = threading.Thread.start
    orig_run = RaisingThread.run
    orig_join = threading.Thread.join

    def start(self):
        kind = TARGET_KIND.get(getattr(self._target, "__name__", ""), "W")
        if kind == "W":
            CTL.counters["W"] += 1
            name = "W%d" % CTL.counters["W"]
        else:
            name = kind
        self._sim_name = name
        point(("tstart", name))
        self._sim_ent = CTL.register(name)
        orig_start(self)

    def run(self):
        ent = self._sim_ent
        CTL.bind(ent)
        try:
            point(("tbegin",))
            orig_run(self)
        except StopSim:
            pass
        finally:
            ent.exc = type(self._exception).__name__ if self._exception is not None else None
            CTL.finish(ent)

    def join(self, timeout=None):
        ent = self._sim_ent
        point(("tjoin", self._sim_name), pred=lambda: ent.state in ("done", "killed"))
        if CTL.stopped:
            return
        orig_join(self, timeout=30)
        if self._exception:
            raise self._exception

    RaisingThread.start = start
    RaisingThread.run = run
    RaisingThread.join = join


# ------------------------------------------------------------------ zmq
class FakeSocket:
    def __init__(self, registry):
        self.reg = registry
        self.inbox = collections.deque()
        self.peer = None
        self.pending = collections.deque()
        self.name = None
        self.port = None

    def bind_to_random_port(self, addr):
        self.reg["port"] += 1
        self.port = self.reg["port"]
        self.reg["bound"][str(self.port)] = self
        return self.port

    def connect(self, addr):
        port = addr.rsplit(":", 1)[1]
        srv = self.reg["bound"][port]
        self.peer, srv.peer = srv, self
        self.name = "C" + srv.name[1:] if srv.name else None
        while srv.pending:
            self.inbox.append(srv.pending.popleft())

    def send(self, payload):
        point(lambda: ("zsend", self.name, msg_desc(payload)))
        if self.peer is None:
            self.pending.append(payload)
        else:
            self.peer.inbox.append(payload)

    def recv(self):
        point(lambda: ("zrecv", self.name, msg_desc(self.inbox[0])), pred=lambda: len(self.inbox) > 0)
        if not self.inbox:
            raise StopSim()
        return self.inbox.popleft()

    def close(self, linger=None):
        pass


class FakeContext:
    def __init__(self, reg):
        self.reg = reg

    def socket(self, kind):
        return FakeSocket(self.reg)

    def term(self):
        pass


def fake_zmq():
    reg = {"port": 50000, "bound": {}}
    return types.SimpleNamespace(Context=lambda: FakeContext(reg), PAIR=0, Socket=FakeSocket, _reg=reg)


# ------------------------------------------------------------------ processes
class FakePopen:
    """starts the real serial backend loop as a simulated process entity"""

    def __init__(self, args=None, cwd=None, stdin=None, **kw):
        self.args, self.cwd = list(args), cwd
        point(lambda: ("spawn", "P%d" % (CTL.counters["P"] + 1)))
        CTL.counters["P"] += 1
        self.k = CTL.counters["P"]
        self.name = "P%d" % self.k
        CTL.procs.append(self)
        # the parent's socket is the one bound to the port named in argv
        argv = self.args
        if "--zmqport" in argv:
            port = argv[argv.index("--zmqport") + 1]
            srv = CTL.extra["zmq"]._reg["bound"][port]
            srv.name = "S%d" % self.k
        script = [a for a in argv if a.endswith(".py")]
        self.script = os.path.basename(script[0]) if script else None
        self.ent = CTL.register(self.name)
        self.returncode = None
        start_at = argv.index(script[0]) if script else 0
        self.thread = threading.Thread(target=self._body, args=(argv[start_at:],), daemon=True)
        self.thread.start()

    def _body(self, argv):
        CTL.bind(self.ent)
        try:
            point(("pbegin",))
            if self.script in ("cache_serial.py", "cache_parallel.py"):
                from executorlib.cache.backend import backend_execute_task_in_file
                backend_execute_task_in_file(file_name=argv[1])
            else:
                from executorlib.backend import interactive_serial
                interactive_serial.main(argument_lst=argv)
        except StopSim:
            pass
        except BaseException as ex:  # noqa
            self.ent.exc = type(ex).__name__
        finally:
            self.returncode = 0
            CTL.finish(self.ent)

    def alive(self):
        return self.ent.state not in ("done", "killed")

    def poll(self):
        point(("ppoll", self.name), polling=self.alive())
        if not self.alive():
            CTL.progress()
        return None if self.alive() else 0

    def communicate(self, input=None, timeout=None):
        point(("pcomm", self.name), pred=lambda: not self.alive())
        return (None, None)

    def terminate(self):
        point(("pterm", self.name))
        if self.alive():
            with CTL.cv:
                self.ent.state = "killed"

    def wait(self, timeout=None):
        point(("pwait", self.name), pred=lambda: not self.alive())
        return 0


FAKE_SUBPROCESS = types.SimpleNamespace(Popen=FakePopen, DEVNULL=-3, PIPE=-1)


def file_tag(path):
    import re
    base = os.path.basename(str(path))
    m = re.match(r"c(\d+)x[0-9a-f]*(\.\w+)$", base)
    if m:
        return "k%s%s" % (m.group(1), m.group(2))
    return base


class SimPath:
    def __init__(self):
        self.join = os.path.join
        self.abspath = os.path.abspath
        self.splitext = os.path.splitext
        self.basename = os.path.basename

    def exists(self, p):
        point(("exists", file_tag(p)), polling=not os.path.exists(p))
        if os.path.exists(p):
            CTL.progress()
        return os.path.exists(p)


class SimOS:
    """what the executorlib modules see as `os`: directory operations are points"""

    def __init__(self):
        self.path = SimPath()

    def makedirs(self, p, exist_ok=False):
        os.makedirs(p, exist_ok=exist_ok)

    def listdir(self, p):
        point(("listdir",))
        return sorted(os.listdir(p))

    def rename(self, a, b):
        point(("rename", file_tag(a), file_tag(b)))
        os.rename(a, b)

    def remove(self, p):
        point(("remove", file_tag(p)))
        os.remove(p)

    def __getattr__(self, name):
        return getattr(os, name)


def h5_point(op, path, name=None):
    if name is None:
        point(("h5", op, file_tag(path)))
    else:
        point(("h5", op, file_tag(path), name))


def sim_sleep(t):
    point(("sleep",), polling=True)


# ------------------------------------------------------------------ installation
def install(schedule, step_limit=4000):
    """replace the primitives inside the already imported executorlib modules"""
    global CTL
    import gc
    gc.disable()
    CTL = Ctl(schedule, step_limit)
    import executorlib.base.executor as be
    import executorlib.interactive.shared as sh
    import executorlib.interactive.executor as ie
    import executorlib.standalone.queue as sq
    import executorlib.standalone.thread as st
    import executorlib.standalone.interactive.communication as co
    import executorlib.standalone.interactive.spawner as sp
    import executorlib.standalone.plot as pl
    z = fake_zmq()
    CTL.extra["zmq"] = z
    for m in (be, sh, sq):
        m.queue = FAKE_QUEUE_MODULE
    for m in (be, sh, ie, pl):
        m.Future = SFuture
    patch_threads(st.RaisingThread)
    co.zmq = z
    sp.subprocess = FAKE_SUBPROCESS
    sh.sleep = sim_sleep
    co.gethostname = lambda: "simhost"
    try:
        import executorlib.cache.shared as cs
        import executorlib.cache.subprocess_spawner as css
        cs.queue = FAKE_QUEUE_MODULE
        cs.Future = SFuture
        css.subprocess = FAKE_SUBPROCESS
        css.time = types.SimpleNamespace(sleep=sim_sleep)
        import executorlib.cache.backend as cb
        import executorlib.standalone.inputcheck as ic
        import h5py
        simos = SimOS()
        cs.os = simos
        cb.os = simos
        sh.os = simos
        ic.os = simos
        h5py._point = h5_point
    except Exception:  # noqa
        import traceback
        CTL.extra["install_error"] = traceback.format_exc()
    return CTL
